"""C19 -- Lp profile distance is a true metric; the ballot graph is complete and exact."""
from __future__ import annotations

import itertools
from fractions import Fraction as RealFraction

import z3

from sx import core, env
from sx.core import eq, ne, le, lt, ge, gt, AND, OR, NOT, add, sub, mul, div, num
from sx.engine import harness
from sx.env import factory, sym_only, sym_float
from . import common as C, families as F

DIST = "votekit.metrics.distances"


def _np_obj(ctx):
    """numpy whose zeros() builds object arrays, so standardised weights stay symbolic"""
    import numpy as real_np

    class NP:
        def __getattr__(self, k):
            return getattr(real_np, k)

        def zeros(self, shape, *a, **k):
            return real_np.zeros(shape, dtype=object)

    return NP()


EXTRA = {(DIST, "float"): sym_only(sym_float), (DIST, "np"): sym_only(factory(_np_obj))}
EXTRA[(DIST, "np")]._factory = True


def build(ctx, prefix, shapes, cands, order=None, dup=None, scale=None):
    """profile with symbolic weights on the simplex (total 1), optionally multiplied by a symbolic scale:
    every positive weight vector is scale * (simplex point), and on the simplex the library's own
    standardisation is linear, which keeps the branch queries in linear arithmetic"""
    from votekit.pref_profile import PreferenceProfile
    rows = []
    vs = [ctx.real(f"{prefix}{i}", lo=0, lo_strict=True) for i in range(len(shapes) - 1)]
    last = sub(1, add(*vs)) if vs else RealFraction(1)
    if ctx.sym and vs:
        ctx.assume(gt(last, 0))
    ws = vs + [last]
    for s, w in zip(shapes, ws):
        rows.append((s, w))
    bal = list(rows)
    if dup is not None:  # uncondensed: split one ballot into two equal-content ballots
        s, w = rows[dup]
        u = ctx.real(f"{prefix}u", lo=0, lo_strict=True)
        ctx.assume(lt(u, w))
        bal[dup] = (s, u)
        bal.append((s, sub(w, u)))
    if order == "rev":
        bal = bal[::-1]
    if scale is not None:
        bal = [(s, mul(w, scale)) for s, w in bal]
    prof = PreferenceProfile(ballots=tuple(C.mk_ballot(s, w) for s, w in bal), candidates=tuple(cands))
    return prof, rows


def distribution(rows):
    tot = add(*[w for _, w in rows])
    d = {}
    for s, w in rows:
        k = C.key_of(s)
        d[k] = add(d[k], div(w, tot)) if k in d else div(w, tot)
    return d


def absd(a, b):
    x = sub(a, b)
    if core.is_sym(x):
        # the sign of every difference is decided on the path (abs forks), so the oracle follows it
        return x if core.cur().branch(x.e >= 0) else core.SF(-x.e)
    return abs(x)


def spec_dp(dp, dq, p):
    """sum |P(r)-Q(r)|^p  (p int)  or the maximum ('inf')"""
    keys = sorted(set(dp) | set(dq))
    diffs = [absd(dp.get(k, 0), dq.get(k, 0)) for k in keys]
    if p == "inf":
        return diffs
    out = RealFraction(0)
    for d in diffs:
        t = RealFraction(1)
        for _ in range(p):
            t = mul(t, d)
        out = add(out, t)
    return out


def near(ctx, a, b, label, detail=""):
    if ctx.sym:
        if isinstance(a, core.SRoot) and isinstance(b, core.SRoot) and a.p == b.p:
            a, b = a.radicand, b.radicand  # equal non-negative roots <=> equal radicands
        return ctx.require_ratio_eq(a, b, label, detail)
    a, b = float(a), float(b)
    return ctx.require(abs(a - b) <= 1e-9 * max(1.0, abs(a), abs(b)), label, detail + f" ({a} vs {b})")


def powp(d, p):
    if isinstance(d, core.SRoot) and d.p == p:
        return d.radicand
    t = RealFraction(1)
    for _ in range(p):
        t = mul(t, d)
    return t


@harness("c19.lp", extra=EXTRA, float_mix="real", path_alarm=1500.0, abs_fork=True)
def lp(ctx):
    from votekit.metrics import lp_dist
    P = ctx.params
    cands, p = P["cands"], P["p"]
    A, ra = build(ctx, "a", P["pa"], cands)
    B, rb = build(ctx, "b", P["pb"], cands)
    da, db = distribution(ra), distribution(rb)
    try:
        d = lp_dist(A, B, p)
        d_rev = lp_dist(B, A, p)
    except Exception as exc:
        ctx.fail(f"c19:lp-raises:{type(exc).__name__}", str(exc)[:200])
        return {"kind": "exc"}
    dn = (d if isinstance(d, core.SF) else core.num(d)) if ctx.sym else RealFraction(d)
    ctx.require(ge(dn, 0), "c19:negative-distance")
    if p == "inf":
        diffs = spec_dp(da, db, "inf")
        if ctx.sym:
            ctx.require(AND(OR(*[eq(dn, x) for x in diffs]), *[ge(dn, x) for x in diffs]), "c19:linf-definition", "distance is not the maximum absolute difference of the normalised distributions")
        else:
            near(ctx, dn, max(diffs), "c19:linf-definition")
    else:
        want = spec_dp(da, db, p)
        if ctx.canary == "normalise-by-ballot-count":
            want = spec_dp({k: mul(v, 2) for k, v in da.items()}, db, p)
        near(ctx, powp(dn, p), want, "c19:lp-definition", f"d^{p} is not the sum of |P-Q|^{p} over the rankings")
    near(ctx, dn, (d_rev if isinstance(d_rev, core.SF) else core.num(d_rev)) if ctx.sym else RealFraction(d_rev), "c19:symmetry")
    same = AND(*[eq(da.get(k, 0), db.get(k, 0)) for k in sorted(set(da) | set(db))])
    if ctx.sym:
        ctx.require(core.IFF(eq(dn, 0), same), "c19:zero-iff-same-distribution")
    else:
        ctx.require((abs(float(dn)) <= 1e-12) == bool(same), "c19:zero-iff-same-distribution")
    # invariance: the same distribution presented reordered, uncondensed and rescaled by a symbolic factor
    try:
        lam = ctx.real("lam", lo=0, lo_strict=True)
        from votekit.pref_profile import PreferenceProfile
        bal = [(s_, w_) for s_, w_ in ra]
        if P.get("dup_a") is not None:
            s_, w_ = bal[P["dup_a"]]
            u = ctx.real("au", lo=0, lo_strict=True)
            ctx.assume(lt(u, w_))
            bal[P["dup_a"]] = (s_, u)
            bal.append((s_, sub(w_, u)))
        if P.get("order_a") == "rev":
            bal = bal[::-1]
        A2 = PreferenceProfile(ballots=tuple(C.mk_ballot(s_, mul(w_, lam)) for s_, w_ in bal), candidates=tuple(cands))
        d2 = lp_dist(A2, B, p)
    except Exception as exc:
        ctx.fail(f"c19:lp-raises:{type(exc).__name__}", str(exc)[:200])
        return {"kind": "exc"}
    near(ctx, dn, (d2 if isinstance(d2, core.SF) else core.num(d2)) if ctx.sym else RealFraction(d2), "c19:invariance", "distance changed after condensing and rescaling one profile")
    return {"kind": "ok"}


@harness("c19.triangle", extra=EXTRA, float_mix="real", path_alarm=1500.0, abs_fork=True)
def triangle(ctx):
    from votekit.metrics import lp_dist
    P = ctx.params
    cands, p = P["cands"], P["p"]
    A, _ = build(ctx, "a", P["shapes"], cands)
    B, _ = build(ctx, "b", P["shapes"][::-1], cands)
    Cc, _ = build(ctx, "c", P["shapes"][1:] + P["shapes"][:1], cands)
    dab, dbc, dac = lp_dist(A, B, p), lp_dist(B, Cc, p), lp_dist(A, Cc, p)
    if ctx.sym:
        if ctx.canary == "reverse-triangle":
            ctx.require_ratio_le(add(dab, dbc), dac, "c19:triangle-inequality")
        else:
            ctx.require_ratio_le(dac, add(dab, dbc), "c19:triangle-inequality")
    else:
        ctx.require(float(dac) <= float(dab) + float(dbc) + 1e-9, "c19:triangle-inequality")
    return {"kind": "ok"}


@harness("c19.graph", float_mix="real")
def graph(ctx):
    from votekit.graphs import BallotGraph
    P = ctx.params
    cands = P["cands"]
    n = len(cands)
    prof, rows = build(ctx, "w", P["shapes"], cands, dup=P.get("dup"))
    try:
        bg = BallotGraph(prof)
    except Exception as exc:
        ctx.fail(f"c19:graph-raises:{type(exc).__name__}", str(exc)[:200])
        return {"kind": "exc"}
    num_of = {c: i + 1 for i, c in enumerate(prof.candidates)}
    want = {}
    for s, w in rows:
        node = [num_of[p[0]] for p in s]
        if len(node) == n - 1:
            node = node + [x for x in num_of.values() if x not in node]
        want[tuple(node)] = add(want.get(tuple(node), 0), w)
    if ctx.canary == "short-ballot-weight-lost":
        want = {k: v for k, v in want.items() if len(k) != n or True}
        want[next(iter(want))] = add(next(iter(want.values())), 1)
    for node, w in want.items():
        if node not in bg.node_weights:
            ctx.fail("c19:cast-ballot-has-no-node", f"{node}")
            return {"kind": "bad"}
    ctx.require(AND(*[eq(bg.node_weights[k], want.get(k, 0)) for k in bg.node_weights]), "c19:node-weights", "a cast ballot's weight is not on its node")
    ctx.require(eq(add(*bg.node_weights.values()), add(*[w for _, w in rows])), "c19:node-weights-total")
    return {"kind": "ok", "nodes": len(bg.node_weights)}


def adjacency_spec(n):
    nodes = [p for L in range(1, n + 1) if L != n - 1 or n == 1 for p in itertools.permutations(range(1, n + 1), L)]
    if n == 2:
        nodes = [(1, 2), (2, 1)]
    nodeset = set(nodes)
    edges = set()
    for u in nodes:
        for i in range(len(u) - 1):
            v = u[:i] + (u[i + 1], u[i]) + u[i + 2:]
            if v in nodeset:
                edges.add(frozenset((u, v)))
        for v in nodes:
            if len(v) == len(u) + 1 and v[:len(u)] == u:
                edges.add(frozenset((u, v)))
            if len(u) == n - 2 and len(v) == n and v[:n - 2] == u:
                edges.add(frozenset((u, v)))
    return nodeset, edges


def direct_clauses(max_n):
    env.import_votekit()
    from votekit.graphs import BallotGraph
    probs = []
    for n in range(2, max_n + 1):
        g = BallotGraph(n).graph
        nodes, edges = adjacency_spec(n)
        gn = set(g.nodes)
        ge_ = set(frozenset(e) for e in g.edges if e[0] != e[1])
        if gn != nodes:
            probs.append(f"n={n}: node set differs ({len(gn)} vs {len(nodes)}; e.g. {sorted(gn ^ nodes)[:3]})")
        if ge_ != edges:
            probs.append(f"n={n}: edge set differs ({len(ge_)} vs {len(edges)}; e.g. {[tuple(sorted(e)) for e in list(ge_ ^ edges)[:3]]})")
    return probs


def run_direct(task):
    """clauses without symbolic input, evaluated directly (labelled so in the evidence).  A failing clause is a
    violation like any other: it is written as a replay file whose replay re-evaluates the clause."""
    probs = direct_clauses(task.get("max_n", 5))
    viol = [{"label": "c19:direct:" + p.split(":")[0][:60], "detail": p, "model": {}, "script": [], "path": 0,
             "harness": "c19.direct_replay", "params": {"max_n": task.get("max_n", 5)}} for p in probs]
    return {"task": task, "paths": 1, "decisions": 0, "queries": 0, "solver_s": 0.0, "unknown": 0, "violations": viol[:3],
            "violation_count": len(viol), "inconclusive": [], "harness_errors": [],
            "xval": 0, "xval_mismatch": [], "asserted": 1, "exhausted": True, "samples": [], "functions": {}, "patched": [],
            "extra": {"direct_clauses_evaluated": 1}}


@harness("c19.direct_replay")
def direct_replay(ctx):
    if ctx.sym:
        ctx.require(True, "noop")
        return {}
    probs = direct_clauses(ctx.params.get("max_n", 5))
    if probs:
        raise core.ConcViolation("c19:direct", "; ".join(probs)[:400])
    return {"kind": "ok"}


def tasks(tier, seed):
    q = tier == "quick"
    out = []
    sets = [(F.fam("A>B", "B>A", "C"), F.fam("B>A", "C", "A>B>C")), (F.fam("A>B>C", "A"), F.fam("A", "A>B>C")), (F.fam("A", "B"), F.fam("C>B",))]
    if not q:
        sets += [(F.fam("A>B", "B", "C>A", "A>C>B"), F.fam("A>C>B", "B", "A")), (F.fam("A>B>C",), F.fam("A>B>C",))]
    for pa, pb in sets:
        for p in ((1, 2, "inf") if q else (1, 2, 3, "inf")):
            for variant in ({}, {"order_a": "rev", "dup_a": 0}):
                out.append({"harness": "c19.lp", "params": {"cands": C.K3, "p": p, "pa": pa, "pb": pb, **variant}, "sig_keys": ["p"],
                            "name": f"lp p={p} {[C.shape_str(s) for s in pa]} vs {[C.shape_str(s) for s in pb]} {variant}", "xval_stride": 1, "weight": 5})
    for p in (1, "inf"):
        for shapes in ([F.fam("A>B", "B", "C>A")] if q else [F.fam("A>B", "B", "C>A"), F.fam("A", "B>C>A", "C", "A>B")]):
            out.append({"harness": "c19.triangle", "params": {"cands": C.K3, "p": p, "shapes": shapes}, "sig_keys": ["p"],
                        "name": f"triangle p={p} {[C.shape_str(s) for s in shapes]}", "xval_stride": 1, "weight": 8})
    for shapes, cands, dup in ((F.fam("A>B>C", "A>B", "B", "C>A"), C.K3, None), (F.fam("A>B", "A>B>C", "C"), C.K3, 0), (F.fam("A>B>C", "D", "B>A>C>D", "A>B"), C.K4, 1)):
        out.append({"harness": "c19.graph", "params": {"cands": cands, "shapes": shapes, "dup": dup}, "name": f"ballot graph weights {[C.shape_str(s) for s in shapes]}", "xval_stride": 1})
    out.append({"kind": "call", "module": "props.c19", "func": "run_direct", "harness": "c19.direct", "max_n": 5 if q else 6,
                "name": "ballot graph structure n=2..%d (direct evaluation)" % (5 if q else 6)})
    out.append({"harness": "c19.lp", "params": {"cands": C.K3, "p": 1, "pa": F.fam("A", "B"), "pb": F.fam("A",)}, "canary": "normalise-by-ballot-count",
                "stop_on_violation": True, "name": "canary:normalise-by-ballot-count", "xval_stride": 0})
    out.append({"harness": "c19.triangle", "params": {"cands": C.K3, "p": 1, "shapes": F.fam("A", "B")}, "canary": "reverse-triangle", "stop_on_violation": True,
                "name": "canary:reverse-triangle", "xval_stride": 0})
    out.append({"harness": "c19.graph", "params": {"cands": C.K3, "shapes": F.fam("A>B", "C"), "dup": None}, "canary": "short-ballot-weight-lost", "stop_on_violation": True,
                "name": "canary:short-ballot-weight-lost", "xval_stride": 0})
    return out


META = {
    "explanation": "lp_dist executed with symbolic weights (float and numpy.zeros shadowed so the standardised weights stay symbolic; x**(1/p) as a constrained fresh variable): defining equality d^p = sum |P-Q|^p / maximum, symmetry, zero iff equal distributions, invariance under reordering/condensing/rescaling, triangle inequality for p=1 and 'inf' as z3 formulas; BallotGraph(profile) node weights with symbolic weights; node/edge structure for n=2..6 by direct evaluation (no symbolic input)",
    "assumptions": ["floats abstracted as reals", "triangle inequality decided for p in {1, 'inf'} (piecewise linear); for p=2,3 it rests on the defining equality plus Minkowski's inequality", "A-FMT"],
    "direct": ["BallotGraph(n) node and edge sets equal the statement's adjacency predicate for n = 2..5 (quick) / 6 (thorough)"],
}
