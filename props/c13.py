"""C13 -- composite and alias rules equal the composition they are documented to be."""
from __future__ import annotations

import itertools
from fractions import Fraction as RealFraction

from sx import core
from sx.core import PathBudget, TapeMismatch, eq, ne, le, lt, ge, gt, AND, OR, NOT, add, sub, mul, div, num
from sx.engine import harness
from . import common as C, families as F, c01
from .c01 import supports_of, where_raised


ALASKA_MOD = "votekit.elections.election_types.ranking.alaska"


def _plurality_marker(ctx):
    """Alaska's first stage is Plurality(m_1): note how much of the random tape it consumed"""
    import importlib
    real = importlib.import_module("votekit.elections.election_types.ranking.plurality").Plurality

    def make(profile, m=1, tiebreak=None):
        obj = real(profile, m, tiebreak)
        if ctx.tape_mode == "record" and "_stage1_tape_len" not in ctx.notes:
            ctx.notes["_stage1_tape_len"] = len(ctx.tape)
        return obj

    return make


from sx.env import factory
EXTRA13 = dict(c01.EXTRA)
EXTRA13[(ALASKA_MOD, "Plurality")] = factory(_plurality_marker)


def run(ctx, rule, profile, m, opts):
    try:
        return ("ok", c01.construct(rule, profile, m, opts))
    except PathBudget:
        return ("budget", None)
    except TapeMismatch:
        raise
    except Exception as exc:
        return ("exc", type(exc).__name__)


def same_states(ctx, sa, sb, shift, label, what):
    """per-round records equal (structure identical, scores valid-equal); sb's round numbers shifted"""
    if len(sa) != len(sb):
        ctx.fail(label, f"{what}: {len(sa)} vs {len(sb)} rounds")
        return False
    conds = []
    for i, (a, b) in enumerate(zip(sa, sb)):
        if (a.elected, a.eliminated, a.remaining) != (b.elected, b.eliminated, b.remaining) or a.tiebreaks != b.tiebreaks:
            ctx.fail(label, f"{what}: round {i}: ({a.elected},{a.eliminated},{a.remaining},{a.tiebreaks}) vs ({b.elected},{b.eliminated},{b.remaining},{b.tiebreaks})")
            return False
        if a.round_number != b.round_number + shift:
            ctx.fail(label + "-round-number", f"{what}: round {i} numbered {a.round_number} vs {b.round_number}+{shift}")
            return False
        if set(a.scores) != set(b.scores):
            ctx.fail(label, f"{what}: round {i} score keys")
            return False
        conds += [eq(a.scores[c], b.scores[c]) for c in a.scores]
    ctx.require(AND(*conds) if conds else True, label + "-scores", what)
    return True


def full_weight_transfer(winner, fpv, ballots, threshold):
    """written from the statement: the winner's ballots pass on at full weight"""
    from votekit.ballot import Ballot
    out = []
    for b in ballots:
        rk = tuple(frozenset(c for c in s if c != winner) for s in b.ranking)
        rk = tuple(s for s in rk if s)
        if rk:
            out.append(Ballot(ranking=rk, weight=b.weight))
    return tuple(out)


def spec_reduced_profile(present, keep, cands_order):
    """img(P, dropped): strike everyone but `keep`, merge equal rankings, drop empty ballots"""
    from votekit.pref_profile import PreferenceProfile
    acc = {}
    order = []
    for shape, w in present:
        k = C.key_of(C.img(shape, set(c for c in cands_order if c not in keep)))
        if not k:
            continue
        if k not in acc:
            acc[k] = num(w)
            order.append(k)
        else:
            acc[k] = add(acc[k], w)
    ballots = tuple(C.mk_ballot([list(p) for p in k], acc[k]) for k in order)
    return PreferenceProfile(ballots=ballots, candidates=tuple(c for c in cands_order if c in keep)), [([list(p) for p in k], acc[k]) for k in order]


@harness("c13.alias", extra=c01.EXTRA, path_alarm=60.0)
def alias(ctx):
    from votekit import elections as E
    P = ctx.params
    rule, m, opts, cands = P["rule"], P["m"], P.get("opts", {}), P["cands"]
    profile, present = C.family_profile(ctx, P["family"], cands, nmax=P.get("nmax"), strict=True)
    ctx.tape_record()
    ka, ea = run(ctx, rule, profile, m, opts)
    ctx.tape_replay()
    try:
        if rule == "IRV":
            ref = ("STV", 1, dict(opts, simultaneous=True, transfer="fractional"))
            kb, eb = run(ctx, "STV", profile, 1, ref[2])
        elif rule == "SNTV":
            kb, eb = run(ctx, "Plurality", profile, m, opts)
        elif rule == "SequentialRCV":
            try:
                eb = E.STV(profile, m=m, transfer=full_weight_transfer, quota=opts.get("quota", "droop"),
                           simultaneous=opts.get("simultaneous", True), tiebreak=opts.get("tiebreak"))
                kb = "ok"
            except PathBudget:
                kb, eb = "budget", None
            except TapeMismatch:
                raise
            except Exception as exc:
                kb, eb = "exc", type(exc).__name__
        else:
            raise ValueError(rule)
    except TapeMismatch as tm:
        ctx.tape_off()
        ctx.fail("c13:random-streams-diverge", f"{rule}: {tm}")
        return {"kind": "tape"}
    ctx.tape_off()
    if ka != kb or (ka == "exc" and ea != eb):
        ctx.fail("c13:alias-differs-in-outcome-kind", f"{rule}: {ka}/{ea} vs reference {kb}/{eb}")
        return {"kind": "bad"}
    if ka != "ok":
        ctx.require(True, "c13:both-raise")
        return {"kind": ka}
    if ctx.canary == "ignore-first-round":
        pass
    same_states(ctx, ea.election_states, eb.election_states, 0, "c13:alias-states", rule)
    if ea.get_elected() != eb.get_elected():
        ctx.fail("c13:alias-elected", rule)
    return {"kind": "result", "states": C.states_json(ea)}


@harness("c13.toptwo", extra=c01.EXTRA, path_alarm=60.0)
def toptwo(ctx):
    P = ctx.params
    opts, cands = P.get("opts", {}), P["cands"]
    profile, present = C.family_profile(ctx, P["family"], cands, strict=True)
    ctx.tape_record()
    k, e = run(ctx, "TopTwo", profile, 1, opts)
    if k != "ok":
        # the composition must fail too: Plurality for two seats, then Plurality for one on the reduced profile
        ctx.tape_replay()
        try:
            k1, e1 = run(ctx, "Plurality", profile, 2, {"tiebreak": opts.get("tiebreak")})
            k2 = "skipped"
            if k1 == "ok":
                two = C.flat(e1.get_elected())
                p2, _ = spec_reduced_profile(present, set(two), cands)
                k2, _e2 = run(ctx, "Plurality", p2, 1, {"tiebreak": opts.get("tiebreak")})
        except TapeMismatch:
            k1 = k2 = "tape"
        ctx.tape_off()
        if k1 == "ok" and k2 == "ok":
            ctx.fail("c13:toptwo-raises-but-composition-succeeds", f"TopTwo raised {e} although both Plurality stages succeed")
        else:
            ctx.require(True, "c13:toptwo-and-composition-both-raise")
        return {"kind": k}
    ctx.tape_off()
    fpv = C.def_fpv(present, cands)
    st = e.election_states
    if len(st) != 3:
        ctx.fail("c13:toptwo-rounds", f"{len(st)}")
        return {"kind": "bad"}
    two = C.flat(st[1].remaining)
    rest = [c for c in cands if c not in two]
    if len(two) != 2 or sorted(C.flat(st[1].eliminated)) != sorted(rest) or C.flat(st[1].elected):
        ctx.fail("c13:toptwo-round1-record", f"remaining {two} eliminated {st[1].eliminated}")
        return {"kind": "bad"}
    ctx.require(AND(*[ge(fpv[a], fpv[b]) for a in two for b in rest]) if rest else True, "c13:toptwo-finalists",
                f"finalists {two} are not the two highest first-place candidates")
    _, p2 = spec_reduced_profile(present, set(two), cands)
    f2 = C.def_fpv(p2, two)
    w = C.flat(e.get_elected())
    if len(w) != 1 or w[0] not in two:
        ctx.fail("c13:toptwo-winner", f"{w}")
        return {"kind": "bad"}
    other = [c for c in two if c != w[0]][0]
    cond = ge(f2[w[0]], f2[other])
    if ctx.canary == "runoff-on-unreduced-profile":
        cond = ge(fpv[w[0]], fpv[other]) if False else gt(f2[w[0]], f2[other])
    ctx.require(cond, "c13:toptwo-runoff", f"{w[0]} beat {other} although {other} has more first preferences once the others are removed")
    if st[2].round_number != 2 or st[1].round_number != 1:
        ctx.fail("c13:toptwo-round-number", f"{[s.round_number for s in st]}")
    ctx.require(AND(*[eq(st[1].scores[c], f2[c]) for c in two]) if set(st[1].scores) == set(two) else False, "c13:toptwo-round1-scores")
    return {"kind": "result", "states": C.states_json(e)}


@harness("c13.alaska", extra=EXTRA13, path_alarm=90.0)
def alaska(ctx):
    from votekit import elections as E
    P = ctx.params
    m2, opts, cands = P["m"], P["opts"], P["cands"]
    m1 = opts["m_1"]
    profile, present = C.family_profile(ctx, P["family"], cands, nmax=P.get("nmax"), integer_w=P.get("W"), strict=True)
    ctx.tape_record()
    k, e = run(ctx, "Alaska", profile, m2, opts)
    if k != "ok":
        # the composition must fail too (Plurality for m_1 seats, then STV for m_2 on the reduced profile)
        had_random = any(c.get("random") for c in ctx.rlog)
        ctx.tape_replay()
        try:
            k1, e1 = run(ctx, "Plurality", profile, m1, {"tiebreak": opts.get("tiebreak")})
            k2 = "skipped"
            if k1 == "ok":
                keep0 = C.flat(e1.get_elected())
                p1_, _ = spec_reduced_profile(present, set(keep0), cands)
                k2, _e2 = run(ctx, "STV", p1_, m2, opts)
        except TapeMismatch:
            k1 = k2 = "tape"
        ctx.tape_off()
        if k1 == "ok" and k2 == "ok" and not had_random:
            ctx.fail("c13:alaska-raises-but-composition-succeeds", f"Alaska raised {e} although Plurality(m_1) and STV(m_2) on the reduced profile succeed")
        else:
            ctx.require(True, "c13:alaska-and-composition-both-raise (or random redraw, see C01 F14)")
        return {"kind": k}
    st = e.election_states
    fpv = C.def_fpv(present, cands)
    keep = C.flat(st[1].remaining)
    dropped = [c for c in cands if c not in keep]
    if len(keep) != m1 or sorted(C.flat(st[1].eliminated)) != sorted(dropped):
        ctx.tape_off()
        ctx.fail("c13:alaska-stage-one-record", f"kept {keep} (m_1={m1}) eliminated {st[1].eliminated}")
        return {"kind": "bad"}
    ctx.require(AND(*[ge(fpv[a], fpv[b]) for a in keep for b in dropped]) if dropped else True, "c13:alaska-stage-one",
                f"kept {keep} are not the {m1} highest first-place candidates")
    p1, p1rows = spec_reduced_profile(present, set(keep), cands)
    # the reference STV must see the same random stream *after* the first-stage (Plurality) draws
    ctx.tape_replay()
    try:
        tr = {"fractional": E.fractional_transfer, "random": E.random_transfer}[opts.get("transfer", "fractional")]
        ctx.tape_pos = ctx.notes.get("_stage1_tape_len", 0)
        ref = E.STV(p1, m=m2, transfer=tr, quota=opts.get("quota", "droop"), simultaneous=opts.get("simultaneous", True), tiebreak=opts.get("tiebreak"))
    except TapeMismatch as tm:
        ctx.tape_off()
        ctx.fail("c13:random-streams-diverge", f"Alaska: {tm}")
        return {"kind": "tape"}
    except (Exception, PathBudget) as exc:
        ctx.tape_off()
        ctx.fail("c13:alaska-reference-raises", f"STV on the reduced profile raised {type(exc).__name__} but Alaska returned a result")
        return {"kind": "bad"}
    ctx.tape_off()
    ok = same_states(ctx, st[2:], ref.election_states[1:], 1, "c13:alaska-stv-stage", "Alaska rounds 2.. vs STV on the reduced profile")
    if ok:
        if e.get_elected() != ref.get_elected():
            ctx.fail("c13:alaska-elected", f"{e.get_elected()} vs {ref.get_elected()}")
        f1 = C.def_fpv(p1rows, keep)
        ctx.require(AND(*[eq(st[1].scores[c], f1[c]) for c in keep]) if set(st[1].scores) == set(keep) else False, "c13:alaska-round1-scores")
    return {"kind": "result", "states": C.states_json(e)}


def tasks(tier, seed):
    q = tier == "quick"
    out = []
    fams3 = F.base3(q)
    def t(h, rule, m, opts, sup, cands=C.K3, nmax=6, **kw):
        d = {"harness": h, "params": {"rule": rule, "m": m, "opts": opts, "family": sup, "cands": cands, "nmax": nmax},
             "sig_keys": ["rule", "opts", "m"], "name": f"{rule} m={m} {opts} {[C.shape_str(s) for s in sup]}", "xval_stride": 5, "weight": 2 * len(sup)}
        d.update(kw)
        return d
    sl = [("IRV", {"quota": "droop", "tiebreak": None}, (1,)), ("IRV", {"quota": "hare", "tiebreak": "random"}, (1,)),
          ("SequentialRCV", {"quota": "droop", "simultaneous": False, "tiebreak": "random"}, (1, 2)),
          ("SequentialRCV", {"quota": "droop", "simultaneous": True, "tiebreak": None}, (1, 2)),
          ("SNTV", {"tiebreak": "random"}, (1, 2)), ("SNTV", {"tiebreak": None}, (2,))]
    for i, (rule, opts, ms) in enumerate(sl):
        fams = [fams3[i % len(fams3)]] if q else fams3
        for sup in supports_of(fams, sizes=(1, 2, 3) if q else None):
            for m in ms:
                out.append(t("c13.alias", rule, m, opts, sup))
    for i, tb in enumerate((None, "random", "borda")):
        fams = [fams3[(i + 1) % len(fams3)]] if q else fams3
        for sup in supports_of(fams, sizes=(1, 2, 3, 4) if q else None):
            out.append(t("c13.toptwo", "TopTwo", 1, {"tiebreak": tb}, sup))
    al = [({"m_1": 2, "quota": "droop", "simultaneous": True, "transfer": "fractional", "tiebreak": None}, 1),
          ({"m_1": 3, "quota": "droop", "simultaneous": True, "transfer": "fractional", "tiebreak": None}, 2),
          ({"m_1": 2, "quota": "droop", "simultaneous": False, "transfer": "fractional", "tiebreak": "borda"}, 2),
          ({"m_1": 2, "quota": "droop", "simultaneous": True, "transfer": "fractional", "tiebreak": "random"}, 1),
          ({"m_1": 3, "quota": "hare", "simultaneous": False, "transfer": "fractional", "tiebreak": None}, 1)]
    for i, (opts, m2) in enumerate(al):
        fams = [fams3[(i + 2) % len(fams3)]] if q else fams3
        for sup in supports_of(fams, sizes=(1, 2, 3) if q else None):
            out.append(t("c13.alaska", "Alaska", m2, opts, sup, split=2 if len(sup) >= 3 else 0))
    if not q:
        for opts, m2 in (({"m_1": 3, "quota": "droop", "simultaneous": True, "transfer": "fractional", "tiebreak": None}, 2),
                         ({"m_1": 2, "quota": "droop", "simultaneous": False, "transfer": "fractional", "tiebreak": None}, 1)):
            for fam in F.base4(False)[:2]:
                for sup in supports_of([fam], sizes=(2, 3)):
                    out.append(t("c13.alaska", "Alaska", m2, opts, sup, cands=C.K4, nmax=8, split=3))
    out.append(t("c13.toptwo", "TopTwo", 1, {"tiebreak": "random"}, F.fam("A>B", "B>A", "C>A"), canary="runoff-on-unreduced-profile",
                 stop_on_violation=True, name="canary:runoff-needs-strict-win", xval_stride=0))
    return out


META = {
    "explanation": "IRV/SNTV/SequentialRCV run on proxies and compared round by round with the documented reference (STV m=1, Plurality, STV with a harness-written full-weight transfer) under the same path condition and the same recorded random stream; TopTwo and Alaska compared with the composition written from the statement (finalists/kept candidates by definition first-place tallies, reduced profile by spec image, second stage by an independently constructed STV)",
    "assumptions": ["A-LD", "A-RND", "A-FMT", "A-PD", "the reference STV of the Alaska comparison replays the recorded random stream from the point where the first (Plurality) stage stopped drawing"],
}
