"""Committed shape families (structural bounds).  Shapes are written 'A>B>C'; 'AB>C' is a tied
first position.  Each shape gets one symbolic weight; a ballot is present iff its weight > 0, so a
family of size k covers all 2^k sub-supports."""
from __future__ import annotations

import itertools
from .common import R, untied, K3, K4


def fam(*ss):
    return [R(s) for s in ss]


BASE3 = [
    fam("A>B", "B", "C>A>B", "B>C", "A"),
    fam("A>B>C", "B>C>A", "C>A>B", "A>C"),
    fam("A", "B", "C", "A>C", "B>C"),
    fam("A>B", "A>C", "B", "C"),
    fam("A>B", "B>A", "A"),  # C is a zero-vote candidate
]
BASE3_MORE = [
    fam("A>B>C", "A>C>B", "B>A>C", "B>C>A", "C>A>B", "C>B>A"),
    fam("A", "A>B", "B>C", "C>B", "C", "B>A>C"),
    fam("C>B>A", "B", "A>C", "A>B", "C", "B>C", "A"),
]
BASE4 = [
    fam("A>B>C>D", "B>A", "C>D>A", "D", "B>C"),
    fam("A", "B", "C", "D", "A>B"),
    fam("A>B", "C>D", "B>A>C", "D>C>B>A"),
    fam("A>D", "B>D", "C>D", "D>A", "A>B>C"),
]


def base3(quick):
    return BASE3 if quick else BASE3 + BASE3_MORE


def base4(quick):
    return BASE4[:2] if quick else BASE4


def stv_option_slice(quick):
    o = lambda q, s, t, tb: {"quota": q, "simultaneous": s, "transfer": t, "tiebreak": tb}
    sl = [o("droop", True, "fractional", None), o("droop", False, "fractional", None),
          o("droop", False, "fractional", "borda"), o("hare", True, "fractional", None),
          o("hare", False, "fractional", "first_place"), o("droop", True, "random", "random"),
          o("droop", False, "random", None), o("droop", True, "fractional", "random")]
    if quick:
        return sl
    full = [o(q, s, t, tb) for q in ("droop", "hare") for s in (True, False)
            for t in ("fractional", "random") for tb in (None, "random", "borda", "first_place")]
    return full


def seq_option_slice(quick):
    o = lambda q, s, tb: {"quota": q, "simultaneous": s, "tiebreak": tb}
    sl = [o("droop", True, None), o("droop", False, "random"), o("hare", False, None)]
    if quick:
        return sl
    return [o(q, s, tb) for q in ("droop", "hare") for s in (True, False) for tb in (None, "random", "borda", "first_place")]


TIED3 = [
    fam("AB>C", "A>BC", "ABC", "C>B"),
    fam("A>B", "B>A", "C", "AC>B"),
    fam("ABC", "A", "BC"),
]


def tied3(quick):
    return TIED3[:2] if quick else TIED3
