"""Shared generator harness: builds each ballot-generator class with symbolic supports / cohesion
(exact real arithmetic), stubs randomness (forking over every outcome, tracking probabilities) and
the external Huntington-Hill apportionment (A-APP), runs generate_profile and hands the result to the
well-formedness assertions (C14) or returns the outcome for the law machinery (C16)."""
from __future__ import annotations

import builtins
import itertools
import os
import pickle
from fractions import Fraction as RealFraction

from sx import core, env
from sx.core import PathBudget, eq, ne, le, lt, ge, gt, AND, OR, NOT, add, sub, mul, div, num
from sx.engine import harness
from sx.env import factory, sym_only
from . import common as C
from .c15 import sym_round, fl, ex

BG = "votekit.ballot_generator"
PI = "votekit.pref_interval"


class ApportionStub:
    """A-APP: apportionment.methods.compute is external.  The stub records its arguments and returns
    an arbitrary split of N into non-negative integers in which a component is zero whenever its
    proportion is zero (every apportionment method gives nothing to an empty party)."""

    def __init__(self, ctx):
        self.ctx = ctx
        ctx.notes["apportion_calls"] = []

    def compute(self, method, props, n, *a, **k):
        ctx = self.ctx
        props = list(props)
        fixed = ctx.params.get("apportion_fixed")
        if fixed is not None:
            ctx.notes["apportion_calls"].append({"method": method, "props": props, "n": n, "result": list(fixed)})
            return list(fixed)
        live = [i for i, p in enumerate(props) if ctx.truth(gt(ex(p), 0))]
        if not live:
            raise ZeroDivisionError("no party with votes")
        # all compositions of n into len(live) non-negative parts
        comps = [c for c in itertools.product(range(n + 1), repeat=len(live)) if sum(c) == n]
        c = comps[ctx.choose(len(comps))]
        out = [0] * len(props)
        for i, v in zip(live, c):
            out[i] = v
        ctx.notes["apportion_calls"].append({"method": method, "props": props, "n": n, "result": list(out)})
        return out


class DirichletRng:
    def __init__(self, ctx):
        self.ctx = ctx

    def dirichlet(self, alpha):
        alpha = list(alpha)
        n = len(alpha)
        if all(a >= 1e19 for a in alpha):
            # assumption: Dirichlet(alpha -> infinity) is the point mass at the uniform vector
            return [RealFraction(1, n)] * n
        ctx = self.ctx
        k = ctx.notes.get("_dir", 0)
        ctx.notes["_dir"] = k + 1
        vs = [ctx.real(f"dir{k}_{i}", lo=0) for i in range(n - 1)]
        last = sub(1, add(*vs)) if vs else RealFraction(1)
        if ctx.sym:
            ctx.assume(ge(last, 0))
        return vs + [last]


def _np_for_generators(ctx):
    import numpy as real_np
    stub = env.NpStub(ctx, real_np)
    rnd = stub.random
    rnd.default_rng = lambda *a, **k: DirichletRng(ctx)

    def normal(loc=0.0, scale=1.0, size=None):
        k = ctx.notes.get("_pos", 0)
        if size is None:
            ctx.notes["_pos"] = k + 1
            v = ctx.real(f"pos{k}")
            return v
        n = int(size)
        ctx.notes["_pos"] = k + n
        return env.NpList([ctx.real(f"pos{k + i}") for i in range(n)])

    rnd.normal = normal
    return stub


EXTRA = {(PI, "round"): sym_only(sym_round), (BG, "round"): sym_only(sym_round), (BG, "pow"): sym_only(lambda a, b: a ** b),
         (BG, "apportion"): factory(lambda ctx: ApportionStub(ctx)), (BG, "np"): factory(_np_for_generators),
         (PI, "np"): factory(_np_for_generators)}


# ---------------------------------------------------------------------------
def simplex(ctx, name, cands, zero_ok=True, all_positive=False):
    """symbolic supports for `cands` on the simplex (last = 1 - sum of the others).  In conc mode the
    values are the doubles nearest to the model's exact rationals (the rest is computed exactly first,
    so an exact zero stays a zero)."""
    exact = {}
    for c in cands[:-1]:
        exact[c] = ctx.real(f"{name}_{c}", lo=0, hi=1, lo_strict=all_positive, snap=True)
    rest = sub(1, add(*exact.values())) if exact else RealFraction(1)
    if ctx.sym:
        ctx.assume(ge(rest, 0) if (zero_ok and not all_positive) else gt(rest, 0))
        exact[cands[-1]] = rest if isinstance(rest, core.SF) else RealFraction(rest)
        return exact
    exact[cands[-1]] = rest
    return {c: float(v) for c, v in exact.items()}


def cohesion_pair(ctx, name):
    """(c, 1-c) with c symbolic in [0,1]; exact complement before rounding to doubles in conc mode"""
    c0 = ctx.real(name, lo=0, hi=1, snap=True)
    if ctx.sym:
        return c0, sub(1, c0)
    return float(c0), float(1 - c0)


def build_generator(ctx, P):
    """-> (generator, info) ; info carries the symbolic parameters for the oracles"""
    bg = env.import_generators()
    from votekit.pref_interval import PreferenceInterval
    cls = getattr(bg, P["cls"])
    slates = P["slates"]  # {"X": [...], "Y": [...]}
    blocs = list(slates)
    cands = [c for b in blocs for c in slates[b]]
    info = {"cands": cands, "slates": slates, "blocs": blocs}
    sym_params = P.get("symbolic", True)
    if P["cls"] in ("ImpartialCulture", "ImpartialAnonymousCulture"):
        return cls(candidates=cands), info
    if P["cls"] == "BallotSimplex":
        pt = simplex(ctx, "pt", cands, all_positive=True) if sym_params else {c: 1.0 / len(cands) for c in cands}
        info["point"] = pt
        g = object.__new__(bg.BallotSimplex)
        bg.BallotSimplex.__init__(g, point=dict(pt), candidates=cands)  # from_point tests sum == 1.0 on floats
        return g, info
    if P["cls"] in ("OneDimSpatial",):
        return cls(candidates=cands), info
    if P.get("from_params"):
        # BallotGenerator.from_params: intervals drawn by PreferenceInterval.from_dirichlet (Dirichlet stub: an
        # arbitrary point of the simplex, i.e. symbolic supports dir<k>_<i>)
        props = P.get("bloc_voter_prop") or {b: 1.0 / len(blocs) for b in blocs}
        coh = {b: {b2: (0.75 if b2 == b else 0.25 / max(1, len(blocs) - 1)) for b2 in blocs} for b in blocs}
        if len(blocs) == 1:
            coh = {blocs[0]: {blocs[0]: 1.0}}
        kw = {}
        if P["cls"] == "short_name_PlackettLuce":
            kw["ballot_length"] = P["ballot_length"]
        if P["cls"] == "name_Cumulative":
            kw["num_votes"] = P["num_votes"]
        g = cls.from_params(slate_to_candidates=slates, bloc_voter_prop=dict(props), cohesion_parameters=coh,
                            alphas={b: {b2: 1.0 for b2 in blocs} for b in blocs}, **kw)
        supports = {}
        for b in blocs:
            supports[b] = {}
            for s_ in blocs:
                iv = g.pref_intervals_by_bloc[b][s_]
                supports[b][s_] = {c: (iv.interval[c] if c in iv.interval else RealFraction(0)) for c in slates[s_]}
        info.update(supports=supports, cohesion=coh, props=props)
        return g, info
    # bloc models
    supports = {}
    intervals = {}
    for b in blocs:
        intervals[b] = {}
        supports[b] = {}
        for s in blocs:
            if sym_params and (b == blocs[0]):
                sup = simplex(ctx, f"s{b}{s}", slates[s])
            else:
                sup = {c: (1.0 + i) / sum(range(1, len(slates[s]) + 1)) for i, c in enumerate(slates[s])}
            for z in P.get("zero_support", []):
                if z in sup and not sym_params:
                    sup[z] = 0.0
            supports[b][s] = sup
            intervals[b][s] = PreferenceInterval(dict(sup))
    info["supports"] = supports
    coh = {}
    for i, b in enumerate(blocs):
        if len(blocs) == 1:
            coh[b] = {b: 1.0}
        elif i == 0 and sym_params and len(blocs) == 2:
            c0, c1 = cohesion_pair(ctx, "coh")
            coh[b] = {blocs[0]: c0, blocs[1]: c1}
        elif i == 0 and sym_params:
            coh[b] = simplex(ctx, "coh", blocs)  # variables coh_<bloc>, the last one is 1 - sum
        else:
            coh[b] = {b2: (0.75 if b2 == b else 0.25 / (len(blocs) - 1)) for b2 in blocs}
            if len(blocs) == 2:
                coh[b] = {b: 0.75, [x for x in blocs if x != b][0]: 0.25}
    if P.get("coh_key_order") == "reversed":
        # the inner dictionaries of one bloc written in different key orders (values are looked up by name)
        coh = {b: {k: coh[b][k] for k in reversed(list(coh[b]))} for b in coh}
    info["cohesion"] = coh
    props = P.get("bloc_voter_prop") or {b: 1.0 / len(blocs) for b in blocs}
    info["props"] = props
    kw = dict(pref_intervals_by_bloc=intervals, bloc_voter_prop=dict(props), cohesion_parameters=coh)
    if P["cls"] in ("AlternatingCrossover", "slate_PlackettLuce", "slate_BradleyTerry", "CambridgeSampler"):
        kw["slate_to_candidates"] = slates
    else:
        kw["candidates"] = cands
    if P["cls"] == "short_name_PlackettLuce":
        kw["ballot_length"] = P["ballot_length"]
    if P["cls"] == "name_Cumulative":
        kw["num_votes"] = P["num_votes"]
    if P["cls"] == "CambridgeSampler":
        kw["path"] = P["path"]
    return cls(**kw), info


def synthetic_cambridge(path):
    """small frequency table in the format of the historical pickle: {tuple of 'W'/'C': count}"""
    table = {("W", "W", "C"): 3, ("W", "C"): 2, ("W",): 1, ("C", "C", "W"): 2, ("C", "W", "W"): 1, ("C",): 1}
    os.makedirs(os.path.dirname(path), exist_ok=True)
    with open(path, "wb") as f:
        pickle.dump(table, f)
    return table


def profile_rows(pp):
    """[(ranking key, scores key, weight)] of a profile"""
    rows = []
    for b in pp.ballots:
        rk = tuple(tuple(sorted(p)) for p in b.ranking) if b.ranking else ()
        sc = tuple(sorted((c, str(RealFraction(v) if not isinstance(v, core.SF) else core.show(v))) for c, v in b.scores.items())) if b.scores else ()
        rows.append((rk, sc, b.weight))
    return rows


def weight_int(ctx, w):
    """concrete integer value of a generated ballot weight (generators only produce counts)"""
    if isinstance(w, core.SF):
        import z3
        e = z3.simplify(w.e)
        if z3.is_rational_value(e) and e.as_fraction().denominator == 1:
            return int(e.as_fraction())
        return None
    w = RealFraction(w)
    return int(w) if w.denominator == 1 else None
