"""C05 -- score-ballot elections enforce their limits and elect the top m totals."""
from __future__ import annotations

import itertools
from fractions import Fraction as RealFraction

from sx import core
from sx.core import PathBudget, eq, ne, le, lt, ge, gt, AND, OR, NOT, IFF, add, sub, mul, div, num
from sx.engine import harness
from . import common as C, c01
from .c01 import where_raised


@harness("c05.score", extra=c01.EXTRA)
def score(ctx):
    from votekit.ballot import Ballot
    from votekit.pref_profile import PreferenceProfile
    P = ctx.params
    rule, m, cands, nb, tb = P["rule"], P["m"], P["cands"], P["nb"], P.get("tiebreak")
    scored = P.get("scored", cands)  # candidates that may receive scores (others scored by nobody)
    L = k = None
    if rule in ("Rating", "GeneralRating"):
        L = ctx.real("L", lo=0, lo_strict=True, snap=True)
    if rule in ("Limited", "GeneralRating"):
        k = ctx.real("k", lo=0, lo_strict=True, snap=True)
        if rule == "Limited":
            ctx.assume(le(k, m))
        else:
            ctx.assume(le(L, k))
    if rule == "BlocPlurality" and P.get("k") is not None:
        k = P["k"]
    lim, bud = c01.limits_of(rule, m, L, k)
    rows, ballots = [], []
    for b in range(nb):
        w = ctx.real(f"w{b}", lo=0, lo_strict=True)
        sc = {c: ctx.real(f"s{b}{c}", snap=True) for c in scored}
        rows.append((w, {c: sc.get(c, RealFraction(0)) for c in cands}))
        ballots.append(Ballot(weight=w, scores=dict(sc)))
    profile = PreferenceProfile(ballots=tuple(ballots), candidates=tuple(cands))

    def valid_ballot(sc):
        conds = [OR(*[ne(v, 0) for v in sc.values()]), AND(*[ge(v, 0) for v in sc.values()]), AND(*[le(v, lim) for v in sc.values()])]
        if bud is not None:
            conds.append(le(add(*sc.values()), bud))
        return AND(*conds)

    all_valid = AND(*[valid_ballot(sc) for _, sc in rows])
    if ctx.canary == "only-first-ballot-validated":
        all_valid = valid_ballot(rows[0][1])
    tot = c01.def_score_totals(rows, cands)
    try:
        e = c01.construct_score(rule, profile, m, L, k, tb)
    except TypeError as exc:
        ctx.require(NOT(all_valid), "c05:typeerror-on-valid-profile", f"{where_raised(exc)}: {exc}"[:200])
        return {"kind": "typeerror"}
    except ValueError as exc:
        where = where_raised(exc)
        if tb is not None or not where.startswith("elect_cands_from_set_ranking"):
            ctx.fail(f"c05:exc:ValueError@{where}", str(exc)[:200])
            return {"kind": "exc"}
        ctx.require(all_valid, "c05:invalid-profile-not-rejected", "reached the count with an invalid ballot")
        ctx.require(C.straddle_tie(tot, cands, m), "c05:valueerror-iff-boundary-tie")
        return {"kind": "tie-valueerror"}
    except PathBudget:
        ctx.fail("c05:nontermination")
        return {"kind": "nonterm"}
    except Exception as exc:
        ctx.fail(f"c05:exc:{type(exc).__name__}@{where_raised(exc)}", str(exc)[:200])
        return {"kind": "exc"}
    ctx.require(all_valid, "c05:invalid-profile-accepted", "a profile with a ballot violating the limits was accepted")
    st0 = e.election_states[0]
    if set(st0.scores) != set(cands):
        ctx.fail("c05:score-keys", f"{sorted(st0.scores)}")
        return {"kind": "bad"}
    cond = AND(*[eq(st0.scores[c], tot[c]) for c in cands])
    if ctx.canary == "weights-ignored":
        cond = AND(*[eq(st0.scores[c], add(*[sc[c] for _, sc in rows])) for c in cands])
    ctx.require(cond, "c05:totals", "a candidate's total is not the sum of weight*score")
    el = C.flat(e.get_elected())
    if len(el) != m:
        ctx.fail("c05:winner-count", f"{el}")
        return {"kind": "bad"}
    ctx.require(AND(*[ge(tot[a], tot[b]) for a in el for b in cands if b not in el]), "c05:winners-top-m")
    if tb is None:
        ctx.require(NOT(C.straddle_tie(tot, cands, m)), "c05:result-despite-boundary-tie")
    return {"kind": "result", "states": C.states_json(e)}


def tasks(tier, seed):
    q = tier == "quick"
    out = []
    def t(rule, m, tb, nb, cands=C.K3, scored=None, k=None, **kw):
        d = {"harness": "c05.score", "params": {"rule": rule, "m": m, "tiebreak": tb, "nb": nb, "cands": cands, "scored": scored or cands, "k": k},
             "sig_keys": ["rule", "m", "tiebreak"], "name": f"{rule} m={m} tb={tb} nb={nb} scored={scored or cands} k={k}"}
        d.update(kw)
        return d
    rules = ("Rating", "Approval", "Limited", "Cumulative", "BlocPlurality")
    for rule in rules:
        for m in ((2,) if q else (1, 2, 3)):
            for tb in ((None,) if q else (None, "random")):
                out.append(t(rule, m, tb, 2, split=5, weight=20, xval_stride=3))
        out.append(t(rule, 1, "random", 2, scored=["A", "B"], split=3, weight=8, xval_stride=3))  # C scored by nobody
    out.append(t("BlocPlurality", 2, None, 2, k=1, split=4, weight=10, xval_stride=3))
    out.append(t("GeneralRating", 2, None, 2, scored=["A", "B"], split=3, weight=8, xval_stride=3))
    if not q:
        for rule in rules:
            out.append(t(rule, 2, None, 3, scored=["A", "B"], split=6, weight=30, xval_stride=6))
            out.append(t(rule, 2, "random", 2, cands=C.K4, scored=["A", "B", "C"], split=6, weight=30, xval_stride=6))
    out.append(t("Rating", 1, "random", 2, scored=["A", "B"], canary="only-first-ballot-validated", stop_on_violation=True,
                 name="canary:only-first-ballot-validated", xval_stride=0))
    out.append(t("Approval", 1, "random", 2, scored=["A", "B"], canary="weights-ignored", stop_on_violation=True,
                 name="canary:weights-ignored", xval_stride=0))
    return out


META = {
    "explanation": "constructors of Rating/Approval/Limited/Cumulative/BlocPlurality/GeneralRating executed with every score, weight, L and k symbolic; on accepted paths z3 proves every ballot valid, on TypeError paths that some ballot is invalid (both directions, so == L, == k and 'second ballot offends' are decided, not sampled); totals and winners against definitions",
    "assumptions": ["A-LD (scores/limits have denominators <= 10^6)", "A-RND", "A-FMT", "A-PD", "rule parameters themselves valid (L>0, k>0, L<=k, k<=m): their rejection is C20's subject"],
}
