"""C10 -- randomness is used only to break genuine ties, and every tiebreak is recorded."""
from __future__ import annotations

import itertools
from fractions import Fraction as RealFraction

from sx import core
from sx.core import PathBudget, eq, ne, le, lt, ge, gt, AND, OR, NOT, add, sub, mul, div, num
from sx.engine import harness
from . import common as C, families as F, c01, stv
from .c01 import supports_of, where_raised


def check_record(ctx, S, res, sc, elected, tb, tb_scores, rlog, label_round=""):
    """one recorded tiebreak {S: res} of a single-shot election step electing `elected` (flat, in order)"""
    Sl = sorted(S)
    members = [c for g in res for c in g]
    if any(len(g) != 1 for g in res) or sorted(members) != Sl:
        ctx.fail("c10:resolution-not-strict-order", f"{label_round}{Sl} -> {[sorted(g) for g in res]}")
        return
    cond = AND(*[eq(sc[Sl[0]], sc[x]) for x in Sl[1:]])
    if ctx.canary == "tiebreak-needs-strict-difference":
        cond = NOT(cond)
    ctx.require(cond, "c10:recorded-tie-not-genuine", f"{label_round}{Sl} recorded as tied but their deciding tallies differ")
    ins = [c for c in members if c in elected]
    if not ins or len(ins) == len(members):
        ctx.fail("c10:tiebreak-not-decisive", f"{label_round}tie {Sl} does not straddle the decision (elected {elected})")
    elif members[:len(ins)] != ins or [c for c in elected if c in S] != ins:
        ctx.fail("c10:resolution-not-obeyed", f"{label_round}resolution {members} vs elected {elected}")
    if tb in ("borda", "first_place") and tb_scores is not None:
        ctx.require(AND(*[ge(tb_scores[a], tb_scores[b]) for a, b in zip(members, members[1:])]), "c10:resolution-ignores-score",
                    f"{label_round}{tb} tiebreak order {members} is not non-increasing in that score")
    for call in rlog:
        if call["fn"] == "sample" and call.get("random"):
            pop = sorted(call["population"])
            if not set(pop) <= set(S):
                ctx.fail("c10:random-draw-outside-tie", f"{label_round}drew among {pop}, recorded tie {Sl}")
            elif tb in ("borda", "first_place") and tb_scores is not None:
                ctx.require(AND(*[eq(tb_scores[pop[0]], tb_scores[x]) for x in pop[1:]]), "c10:random-fallback-not-tied",
                            f"{label_round}random fallback among {pop} which are not tied on {tb}")


@harness("c10.single", extra=c01.EXTRA)
def single(ctx):
    """single-round rules (Plurality, SNTV, Borda, CondoBorda, score rules)"""
    P = ctx.params
    rule, m, opts, cands = P["rule"], P["m"], P.get("opts", {}), P["cands"]
    tb = opts.get("tiebreak")
    if rule in c01.SCORE_RULES:
        profile, rows = c01.build_score_profile(ctx, {"cands": cands, "nb": P["nb"], "rule": rule, "m": m, "L": opts.get("L"), "k": opts.get("k")})
        sc = c01.def_score_totals(rows, cands)
        present = None
    else:
        profile, present = C.family_profile(ctx, P["family"], cands, strict=True)
        sc = c01.deciding_scores(rule, opts, present, cands)
    try:
        e = c01.construct_score(rule, profile, m, opts.get("L"), opts.get("k"), tb) if present is None else c01.construct(rule, profile, m, opts)
    except Exception:
        ctx.require(True, "c10:construction-raised (C01's subject)")
        return {"kind": "no-election"}
    st = e.election_states[1]
    elected = C.flat(st.elected)
    draws = [c for c in ctx.rlog if c.get("random")]
    if rule == "CondoBorda":
        tbk, tb_scores = "borda", C.def_borda(present, cands)
        # deciding "tally" of CondoBorda is tier membership: members of a recorded tie must share a tier
        from .c06 import decide_signs, spec_tiers
        from .c12 import pair_margins
        tiers = spec_tiers(decide_signs(ctx, pair_margins(present, cands), cands), cands)
        tier_of = {c: i for i, t in enumerate(tiers) for c in t}
        sc = {c: RealFraction(-tier_of[c]) for c in cands}
    elif tb == "borda":
        tbk, tb_scores = tb, (C.def_borda(present, cands) if present is not None else None)
    elif tb == "first_place":
        tbk, tb_scores = tb, (C.def_fpv(present, cands) if present is not None else None)
    else:
        tbk, tb_scores = tb, None
    for S, res in st.tiebreaks.items():
        check_record(ctx, S, res, sc, elected, tbk, tb_scores, ctx.rlog)
    if draws and not st.tiebreaks:
        ctx.notes["unrecorded_draw"] = True
        flag_unrecorded(ctx, draws, C.states_json(e))
    for call in draws:
        pop = call.get("population", [])
        if st.tiebreaks and all(isinstance(x, str) for x in pop) and not any(set(pop) <= set(S) for S in st.tiebreaks):
            ctx.fail("c10:random-draw-outside-tie", f"drew among {sorted(pop)}, recorded ties {[sorted(S) for S in st.tiebreaks]}")
    ctx.require(True, "c10:records-checked")
    return {"kind": "result", "states": C.states_json(e)}


def flag_unrecorded(ctx, draws, outcome):
    """An unrecorded draw is only a violation if it can change the outcome.  Leaves with such draws are
    collected; engine-side post-processing (task hook) compares leaves that differ in the draw."""
    if ctx.sym:
        ctx.notes.setdefault("_leafinfo", {})["unrecorded"] = {"outcome": outcome}
    ctx.fail("c10:unrecorded-random-draw", f"a random draw among {[sorted(map(str, d.get('population', []))) for d in draws][:2]} is not covered by any recorded tiebreak")


@harness("c10.staged", extra=c01.EXTRA, path_alarm=60.0)
def staged(ctx):
    """TopTwo / Alaska: the first-stage Plurality tiebreak must be recorded in round 1 and be genuine"""
    P = ctx.params
    rule, m, opts, cands = P["rule"], P["m"], P.get("opts", {}), P["cands"]
    tb = opts.get("tiebreak")
    profile, present = C.family_profile(ctx, P["family"], cands, nmax=P.get("nmax"), strict=True)
    try:
        e = c01.construct(rule, profile, m, opts)
    except (Exception, PathBudget):
        ctx.require(True, "c10:construction-raised (C01's subject)")
        return {"kind": "no-election"}
    fpv = C.def_fpv(present, cands)
    st1 = e.election_states[1]
    kept = C.flat(st1.remaining)
    tb_scores = C.def_borda(present, cands) if tb == "borda" else (fpv if tb == "first_place" else None)
    for S, res in st1.tiebreaks.items():
        check_record(ctx, S, res, fpv, kept, tb, tb_scores, [])
    # every random draw among candidates must be covered by a tiebreak recorded in some round
    all_ties = [set(S) for st in e.election_states for S in st.tiebreaks]
    for call in ctx.rlog:
        pop = call.get("population", [])
        if call.get("random") and pop and all(isinstance(x, str) for x in pop):
            if not any(set(pop) <= S for S in all_ties):
                ctx.fail("c10:unrecorded-random-draw", f"a random draw among {sorted(pop)} is not covered by any recorded tiebreak")
    if rule == "TopTwo" and len(e.election_states) == 3:
        # the runoff round: a recorded tie must be genuine on the reduced profile's first-place tallies
        from .c13 import spec_reduced_profile
        _, p2 = spec_reduced_profile(present, set(kept), cands)
        f2 = C.def_fpv(p2, kept)
        st2 = e.election_states[2]
        for S, res in st2.tiebreaks.items():
            check_record(ctx, S, res, f2, C.flat(st2.elected), tb, None, [])
        if not st2.tiebreaks and tb is not None and len(kept) == 2:
            ctx.require(ne(f2[kept[0]], f2[kept[1]]), "c10:runoff-tie-unrecorded",
                        "the two finalists are tied in the runoff and a tiebreak was requested, but round 2 records none")
    m1 = 2 if rule == "TopTwo" else opts["m_1"]
    if not st1.tiebreaks and tb is not None:
        ctx.require(NOT(C.straddle_tie(fpv, cands, m1)) if m1 < len(cands) else True, "c10:stage-one-tie-unrecorded",
                    "first-stage candidates tied at the cut but no tiebreak recorded in round 1")
    ctx.require(True, "c10:records-checked")
    return {"kind": "result", "states": C.states_json(e)}


def tasks(tier, seed):
    q = tier == "quick"
    out = []
    def t(h, rule, m, opts, sup=None, cands=C.K3, nmax=None, **kw):
        d = {"harness": h, "params": {"rule": rule, "m": m, "opts": opts, "family": sup, "cands": cands, "nmax": nmax},
             "sig_keys": ["rule", "opts", "m"], "name": f"{rule} m={m} {opts} {[C.shape_str(s) for s in (sup or [])]}", "xval_stride": 3}
        d.update(kw)
        return d
    tie_fams = [F.fam("A>B", "B>A", "C>A", "C>B"), F.fam("A", "B", "C", "A>B>C"), F.fam("AB>C", "C>AB", "A>BC")]
    if not q:
        tie_fams += F.TIED3
    for fam in tie_fams:
        for sup in supports_of([fam], sizes=(2, len(fam)) if q else None):
            for m in (1, 2):
                for tb in (None, "random", "borda", "first_place"):
                    out.append(t("c10.single", "Plurality", m, {"tiebreak": tb}, sup))
                    if tb != "borda":
                        out.append(t("c10.single", "Borda", m, {"tiebreak": tb}, sup))
                out.append(t("c10.single", "SNTV", m, {"tiebreak": "random"}, sup))
            if all(len(p) == 1 for s in sup for p in s):
                for m in (1, 2):
                    out.append(t("c10.single", "CondoBorda", m, {}, sup))
                for tb in ("random", "borda", "first_place"):
                    out.append(t("c10.staged", "TopTwo", 1, {"tiebreak": tb}, sup))
                    out.append(t("c10.staged", "Alaska", 1, {"m_1": 2, "quota": "droop", "simultaneous": True, "transfer": "fractional", "tiebreak": tb}, sup, nmax=6))
    for rule, L, k in (("Rating", 2, None), ("Approval", None, None), ("Cumulative", None, None)):
        for tb in ("random",) if q else ("random", None):
            out.append({"harness": "c10.single", "params": {"rule": rule, "m": 2 if rule != "Rating" else 1, "opts": {"L": L, "k": k, "tiebreak": tb}, "cands": C.K3, "nb": 2},
                        "sig_keys": ["rule", "m"], "name": f"{rule} tb={tb}", "split": 4, "weight": 12, "xval_stride": 4})
    # STV family: elimination ties and one-by-one elect ties (shared harness, group c10)
    o = lambda s, tb: {"quota": "droop", "simultaneous": s, "transfer": "fractional", "tiebreak": tb}
    sl = [("STV", o(True, None)), ("STV", o(False, "random")), ("STV", o(False, "borda")), ("STV", o(False, "first_place")),
          ("IRV", {"quota": "droop", "tiebreak": "random"}), ("SequentialRCV", {"quota": "droop", "simultaneous": False, "tiebreak": "borda"})]
    fams3 = F.base3(q)
    for i, (rule, opts) in enumerate(sl):
        fams = [fams3[(i + 1) % len(fams3)]] if q else fams3
        for sup in supports_of(fams, sizes=(1, 2, 3) if q else None):
            for m in ((1,) if rule == "IRV" else (1, 2)):
                out.append(stv.mk_task(rule, m, opts, sup, C.K3, ("c10",), nmax=6 if q else 9, weight=len(sup), xval_stride=5))
    out.append(t("c10.single", "Plurality", 1, {"tiebreak": "random"}, F.fam("A", "B"), canary="tiebreak-needs-strict-difference",
                 stop_on_violation=True, name="canary:tiebreak-needs-strict-difference", xval_stride=0))
    out.append(stv.mk_task("STV", 1, o(True, None), F.fam("A", "B", "C"), C.K3, ("c10",), canary="tiebreak-needs-strict-difference",
                           stop_on_violation=True, name="canary:stv-tiebreak-needs-strict-difference", xval_stride=0))
    return out


META = {
    "explanation": "all rules except the intentionally random ones executed on proxies with the random stubs forking over every outcome; every recorded tiebreak is checked by z3 to concern genuinely tied candidates, to straddle the decision, to be a strict order that the round obeys and (borda/first_place) to follow that score with random fallback only among still-tied candidates; a random draw with more than one outcome that no recorded tiebreak covers is reported",
    "assumptions": ["A-LD", "A-RND", "A-FMT", "A-PD", "an unrecorded random draw is reported even if it could not change the outcome (none exists on the unchanged tree; see DESIGN.md)"],
}
