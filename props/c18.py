"""C18 -- cast-vote-record loading keeps every vote (partial: load_scottish only).
load_csv (pandas' C tokenizer / groupby) and PreferenceProfile.to_csv (csv C writer) need concrete
bytes and are not reachable by symbolic execution; no claim is made for them."""
from __future__ import annotations

import builtins
import hashlib
import itertools
import os
from fractions import Fraction as RealFraction

from sx import core, env
from sx.core import eq, ne, le, lt, ge, gt, AND, OR, NOT, add, sub, mul, div, num
from sx.engine import harness
from sx.env import factory, sym_only
from . import common as C

LOADERS = "votekit.cvr_loaders"
ROOT = os.path.dirname(os.path.dirname(os.path.abspath(__file__)))


class DigitCell:
    """a CSV cell consisting of decimal digits whose value is symbolic"""

    def __init__(self, value, concretise=False):
        self.value = value  # SF (integer-valued)
        self.concretise = concretise

    def isdigit(self):
        return True

    def __eq__(self, o):
        return False if isinstance(o, str) else NotImplemented

    def __ne__(self, o):
        return True if isinstance(o, str) else NotImplemented

    def __hash__(self):
        return 0

    def __str__(self):
        return "<digits>"


def sym_int(x, *a):
    if isinstance(x, DigitCell):
        return x.value.__index__() if x.concretise else x.value
    return builtins.int(x, *a)


class FakeFile:
    def __init__(self, rows):
        self.rows = rows

    def __enter__(self):
        return self

    def __exit__(self, *a):
        return False


def _fake_env(ctx):

    class FakeOsPath:
        @staticmethod
        def isfile(p):
            return True

        @staticmethod
        def getsize(p):
            return 1

    class FakeOs:
        path = FakeOsPath

    class FakeCsv:
        @staticmethod
        def reader(f, *a, **k):
            return [list(r) for r in f.rows]

    return {"os": FakeOs, "csv": FakeCsv, "open": lambda *a, **k: FakeFile(ctx.notes["table"]), "int": sym_int}


EXTRA = {(LOADERS, k): sym_only(factory(lambda ctx, k=k: _fake_env(ctx)[k])) for k in ("os", "csv", "open", "int")}
for v in EXTRA.values():
    v._factory = True


def csv_line(cells):
    out = []
    for c in cells:
        c = str(c)
        if any(ch in c for ch in ',"\n') or c != c.strip():
            c = '"' + c.replace('"', '""') + '"'
        out.append(c)
    return ",".join(out)


@harness("c18.scottish", extra=EXTRA, logic=None, int_bound=12)
def scottish(ctx):
    from pandas.errors import DataError
    import votekit.cvr_loaders as L
    P = ctx.params
    K = P["K"]
    names = P["names"][:K]
    parties = P["parties"][:K]
    ward = P["ward"]
    layout = P["ballot_rows"]  # list of ranking lengths
    blanks = set(P.get("blank_after", []))
    first_len = P.get("first_row_len", 2)
    cand_num = ctx.integer("cand_num", lo=0, hi=K + 2)
    seats = ctx.integer("seats", lo=1, hi=9)
    mults, nums = [], []
    for i, ln in enumerate(layout):
        mults.append(ctx.integer(f"mult{i}", lo=1, hi=P.get("max_mult", 50)))
        nums.append([ctx.integer(f"c{i}_{j}", lo=1, hi=K) for j in range(ln)])
    # the table, as rows of cells
    def cell(v, conc=False):
        return DigitCell(v, conc) if ctx.sym else str(int(v))
    meta_row = [cell(cand_num), cell(seats)][:first_len] + ([cell(seats)] if first_len == 3 else [])
    rows = [meta_row + ["", ""]]
    if 0 in blanks:
        rows.append(["", "", ""])
    for i, ln in enumerate(layout):
        rows.append([cell(mults[i])] + [cell(x, True) for x in nums[i]] + [""])
        if i + 1 in blanks:
            rows.append([""])
    for k in range(K):
        rows.append([f"Candidate {k + 1}", names[k], parties[k]])
    if "cands" in blanks:
        rows.append(["", ""])
    rows.append([ward])
    try:
        if ctx.sym:
            ctx.notes["table"] = rows
            res = L.load_scottish("symbolic.csv")
        else:
            d = os.path.join(ROOT, "build", "c18")
            os.makedirs(d, exist_ok=True)
            text = "\n".join(csv_line(r) for r in rows) + "\n"
            fp = os.path.join(d, hashlib.sha256(text.encode()).hexdigest()[:16] + ".csv")
            with builtins.open(fp, "w", encoding="utf-8", newline="") as f:
                f.write(text)
            try:
                res = L.load_scottish(fp)
            finally:
                os.remove(fp)
    except DataError as exc:
        bad = OR(first_len != 2, ne(cand_num, K))
        if ctx.canary == "metadata-never-checked":
            bad = first_len != 2
        ctx.require(bad, "c18:dataerror-on-consistent-file", str(exc)[:120])
        return {"kind": "dataerror"}
    except Exception as exc:
        from .c01 import where_raised
        ctx.fail(f"c18:raises:{type(exc).__name__}@{where_raised(exc)}", str(exc)[:200])
        return {"kind": "exc"}
    ctx.require(AND(first_len == 2, eq(cand_num, K)), "c18:inconsistent-metadata-accepted", "a file whose first row does not announce the listed number of candidates was accepted")
    profile, r_seats, cand_list, cand_to_party, r_ward = res
    ctx.require(eq(r_seats, seats), "c18:seats")
    if list(cand_list) != names or dict(cand_to_party) != dict(zip(names, parties)) or r_ward != ward:
        ctx.fail("c18:metadata-values", f"{cand_list} {cand_to_party} {r_ward!r}")
        return {"kind": "bad"}
    if sorted(profile.candidates) != sorted(names):
        ctx.fail("c18:profile-candidates", f"{profile.candidates}")
    # expected content: each row's numbers mapped to the declared names, in order, with its multiplicity
    want = {}
    for i, ln in enumerate(layout):
        conc_nums = []
        for x in nums[i]:
            conc_nums.append(x.__index__() if ctx.sym else int(x))
        k = tuple((names[n - 1],) for n in conc_nums)
        want[k] = add(want[k], mults[i]) if k in want else num(mults[i])
    got = {}
    for b in profile.ballots:
        k = tuple(tuple(sorted(p)) for p in b.ranking) if b.ranking else ()
        if k not in want:
            ctx.fail("c18:ballot-not-in-file", f"{k}")
            return {"kind": "bad"}
        got[k] = add(got[k], b.weight) if k in got else num(b.weight)
    if ctx.canary == "weights-ignore-multiplicity":
        want = {k: RealFraction(1) for k in want}
    from .stv import maps_equal
    ctx.require(maps_equal(got, want), "c18:weights", "a ranking's weight is not the sum of the multiplicities of its rows")
    ctx.require(eq(profile.total_ballot_wt, add(*mults)) if mults else True, "c18:total-weight")
    return {"kind": "ok", "ballots": len(profile.ballots)}


def tasks(tier, seed):
    q = tier == "quick"
    out = []
    names = ["Ann O'Hara", 'Bob "B" Smith', "Smith, Carl"]
    parties = ["Green Party", "Ind.", "A, B & C"]
    layouts = [[2, 1], [1, 1, 1], [3], [2, 2, 1]] if q else [[2, 1], [1, 1, 1], [3], [2, 2, 1], [3, 3], [1, 2, 3], [2, 2, 2]]
    for K in (1, 2, 3):
        for lay in layouts:
            if max(lay) > K:
                continue
            for blanks in ([], [0, 1], ["cands"]):
                for fl in (2, 1, 3):
                    if fl != 2 and (blanks or lay != layouts[0]):
                        continue
                    out.append({"harness": "c18.scottish", "params": {"K": K, "names": names, "parties": parties, "ward": "Ward 3 - East, North", "ballot_rows": lay,
                                                                         "blank_after": blanks, "first_row_len": fl},
                                "sig_keys": ["K", "first_row_len"], "name": f"scottish K={K} rows={lay} blanks={blanks} first_row_len={fl}", "xval_stride": 3, "weight": sum(lay)})
    # ten and more candidates: 'Candidate 10' sorts before 'Candidate 2' as a string
    many = [f"Cand {chr(65 + i)}" for i in range(12)]
    mparties = [f"P{i}" for i in range(12)]
    for K, lay in ((10, [2]), (11, [1, 1]), (12, [2])) if not q else ((11, [2]),):
        out.append({"harness": "c18.scottish", "params": {"K": K, "names": many, "parties": mparties, "ward": "Ward 10", "ballot_rows": lay, "blank_after": [], "first_row_len": 2},
                    "sig_keys": ["K", "first_row_len"], "name": f"scottish K={K} rows={lay}", "xval_stride": 5, "weight": 10, "split": 3})
    base = {"K": 2, "names": names, "parties": parties, "ward": "W", "ballot_rows": [2, 1], "blank_after": [], "first_row_len": 2}
    out.append({"harness": "c18.scottish", "params": base, "canary": "metadata-never-checked", "stop_on_violation": True, "name": "canary:metadata-never-checked", "xval_stride": 0})
    out.append({"harness": "c18.scottish", "params": base, "canary": "weights-ignore-multiplicity", "stop_on_violation": True, "name": "canary:weights-ignore-multiplicity", "xval_stride": 0})
    return out


META = {
    "explanation": "load_scottish executed on a symbolic table: csv/os/open in votekit.cvr_loaders are replaced by stubs serving rows whose numeric cells (candidate count, seats, multiplicities, candidate numbers) are symbolic integers; accepted <=> metadata consistent, returned seats/ward/names/parties are the declared ones, every ranking is the declared mapping of its numbers and carries the summed multiplicity. Cross-validation and replays write a real CSV file and run the unpatched function",
    "assumptions": ["load_csv and PreferenceProfile.to_csv are NOT covered (pandas' C parser / csv C writer need concrete bytes): no claim", "candidate numbers in 1..K, multiplicities in 1..50, K <= 3 candidates with <= 3 ballot rows of length <= 3, plus K = 10..12 with one or two short rows",
                    "candidate numbers are concretised by forking when used as dictionary keys"],
}
