"""C08 -- outcomes are neutral, anonymous and independent of representation and hash seed."""
from __future__ import annotations

import itertools
import json
import os
import subprocess
import sys
import time
from fractions import Fraction as RealFraction

from sx import core
from sx.core import PathBudget, eq, ne, le, lt, ge, gt, AND, OR, NOT, add, sub, mul, div, num
from sx.engine import harness
from . import common as C, families as F, c01
from .c01 import supports_of, where_raised

RENAMES = [{"A": "b", "B": "A", "C": "c10", "D": "Ä"}, {"A": "C", "B": "A", "C": "B", "D": "D"}, {"A": "zz", "B": "Z", "C": "a", "D": "_"},
           # names that are substrings / prefixes of one another (W1 in W10 in W100, W in all)
           {"A": "W1", "B": "W10", "C": "W", "D": "W100"}, {"A": "Anna", "B": "Ann", "C": "Annabel", "D": "An"},
           # the leader keeps its name, the others trade places
           {"A": "A", "B": "C", "C": "D", "D": "B"}, {"A": "A", "B": "C", "C": "B", "D": "D"}]
UTILS = ("fpv", "borda", "mentions", "remove_cand", "pairwise")


def run_rule(ctx, rule, profile, m, opts):
    """-> (kind, payload) ; payload: list of per-round dicts with sets and score dicts"""
    import votekit.utils as U
    if rule in UTILS:
        try:
            if rule == "fpv":
                return ("scores", U.first_place_votes(profile))
            if rule == "borda":
                return ("scores", U.borda_scores(profile))
            if rule == "mentions":
                return ("scores", U.mentions(profile))
            if rule == "remove_cand":
                rem = opts["removed"]
                out = U.remove_cand(rem, profile)
                from .c12 import content_map
                return ("map", (content_map(out.ballots), tuple(sorted(out.candidates))))
            if rule == "pairwise":
                from votekit.graphs import PairwiseComparisonGraph
                g = PairwiseComparisonGraph(profile)
                return ("scores", dict(g.pairwise_dict), [set(t) for t in g.dominating_tiers()])
        except Exception as exc:
            return ("exc", type(exc).__name__)
    try:
        if rule in c01.SCORE_RULES:
            e = c01.construct_score(rule, profile, m, opts.get("L"), opts.get("k"), opts.get("tiebreak"))
        else:
            e = c01.construct(rule, profile, m, opts)
    except PathBudget:
        return ("budget", None)
    except Exception as exc:
        return ("exc", type(exc).__name__)
    return ("states", e.election_states)


def rn_set(s, inv):
    return frozenset(inv.get(c, c) for c in s)


def compare(ctx, ra, rb, inv, what):
    """rb is the transformed run; names mapped back through inv"""
    if any(c.get("random") for c in ctx.rlog):
        ctx.require(True, "c08:random-draw-involved (outside the statement)")
        return
    if ra[0] != rb[0] or (ra[0] == "exc" and ra[1] != rb[1]):
        ctx.fail("c08:outcome-kind-differs", f"{what}: {ra[0]}/{ra[1] if ra[0] == 'exc' else ''} vs {rb[0]}/{rb[1] if rb[0] == 'exc' else ''}")
        return
    if ra[0] in ("exc", "budget"):
        ctx.require(True, "c08:both-raise")
        return
    if ra[0] == "scores":
        a, b = ra[1], rb[1]
        kb = {(tuple(inv.get(x, x) for x in k) if isinstance(k, tuple) else inv.get(k, k)): v for k, v in b.items()}
        if set(a) != set(kb):
            ctx.fail("c08:score-keys-differ", f"{what}: {sorted(map(str, a))} vs {sorted(map(str, kb))}")
            return
        ctx.require(AND(*[eq(a[k], kb[k]) for k in a]) if a else True, "c08:scores-differ", what)
        if len(ra) > 2 and [set(t) for t in ra[2]] != [set(rn_set(t, inv)) for t in rb[2]]:
            ctx.fail("c08:tiers-differ", f"{what}: {ra[2]} vs {rb[2]}")
        return
    if ra[0] == "map":
        (ma, ca), (mb, cb) = ra[1], rb[1]
        def rk(k):
            return (tuple(tuple(sorted(inv.get(c, c) for c in p)) for p in k[0]), tuple(sorted((inv.get(c, c), v) for c, v in k[1])))
        mb2 = {rk(k): v for k, v in mb.items()}
        if set(ma) != set(mb2) or tuple(sorted(inv.get(c, c) for c in cb)) != ca:
            ctx.fail("c08:contents-differ", what)
            return
        ctx.require(AND(*[eq(ma[k], mb2[k]) for k in ma]) if ma else True, "c08:weights-differ", what)
        return
    sa, sb = ra[1], rb[1]
    if any(st.tiebreaks for st in sa) or any(st.tiebreaks for st in sb) or any(c.get("random") for c in ctx.rlog):
        ctx.require(True, "c08:random-tiebreak-recorded (outside the statement)")
        return
    if len(sa) != len(sb):
        ctx.fail("c08:rounds-differ", f"{what}: {len(sa)} vs {len(sb)} rounds")
        return
    conds = []
    for i, (x, y) in enumerate(zip(sa, sb)):
        for fld in ("elected", "eliminated", "remaining"):
            gx = [frozenset(s) for s in getattr(x, fld) if len(s)]
            gy = [rn_set(s, inv) for s in getattr(y, fld) if len(s)]
            if gx != gy:
                ctx.fail("c08:round-groups-differ", f"{what}: round {i} {fld}: {[sorted(s) for s in gx]} vs {[sorted(s) for s in gy]}")
                return
        ky = {inv.get(c, c): v for c, v in y.scores.items()}
        if set(x.scores) != set(ky):
            ctx.fail("c08:score-keys-differ", f"{what}: round {i}")
            return
        conds += [eq(x.scores[c], ky[c]) for c in x.scores]
    ctx.require(AND(*conds) if conds else True, "c08:scores-differ", what)


def build(ctx, P, present_only=False):
    from votekit.ballot import Ballot
    from votekit.pref_profile import PreferenceProfile
    cands = P["cands"]
    if P.get("score"):
        rows = []
        for b in range(P["nb"]):
            w = ctx.real(f"w{b}", lo=0, lo_strict=True)
            sc = {c: ctx.real(f"s{b}{c}", lo=0, hi=1, snap=True) for c in cands[:2]}
            ctx.assume(gt(add(*sc.values()), 0))
            rows.append((None, w, sc))
        return rows
    rows = []
    for i, s in enumerate(P["family"]):
        w = ctx.real(f"w{i}", lo=0, lo_strict=True)
        rows.append((s, w, None))
    if P.get("nmax"):
        ctx.assume(le(add(*[w for _, w, _ in rows]), P["nmax"]))
    return rows


def profile_of(rows, cands, ren=None, score=False):
    from votekit.ballot import Ballot
    from votekit.pref_profile import PreferenceProfile
    ren = ren or {}
    bs = []
    for s, w, sc in rows:
        kw = {}
        if s is not None:
            kw["ranking"] = tuple(frozenset(ren.get(c, c) for c in p) for p in s)
        if sc:
            kw["scores"] = {ren.get(c, c): v for c, v in sc.items()}
        bs.append(Ballot(weight=w, **kw))
    return PreferenceProfile(ballots=tuple(bs), candidates=tuple(ren.get(c, c) for c in cands))


@harness("c08.meta", extra=c01.EXTRA, path_alarm=90.0)
def meta(ctx):
    P = ctx.params
    rule, m, opts, cands, rel = P["rule"], P["m"], P.get("opts", {}), P["cands"], P["relation"]
    rows = build(ctx, P)
    base = profile_of(rows, cands)
    ra = run_rule(ctx, rule, base, m, opts)
    inv = {}
    opts2 = opts
    if rel.startswith("rename"):
        ren = RENAMES[int(rel[-1])]
        ren = {c: ren[c] for c in cands}
        inv = {v: k for k, v in ren.items()}
        p2 = profile_of(rows, cands, ren)
        if rule == "remove_cand":
            rr = opts["removed"]
            opts2 = dict(opts, removed=ren.get(rr, rr) if isinstance(rr, str) else [ren.get(c, c) for c in rr])
    elif rel == "reverse":
        p2 = profile_of(rows[::-1], cands)
    elif rel == "rotate":
        p2 = profile_of(rows[1:] + rows[:1], cands)
    elif rel == "split":
        j = P.get("split_index", 0)
        s, w, sc = rows[j]
        u = ctx.real("u", lo=0, lo_strict=True)
        ctx.assume(lt(u, w))
        rows2 = rows[:j] + [(s, u, sc)] + rows[j + 1:] + [(s, sub(w, u), sc)]
        p2 = profile_of(rows2, cands)
    elif rel == "condense":
        p2 = base.condense_ballots()
    elif rel == "candorder":
        p2 = profile_of(rows, cands[::-1])
    elif rel == "candrot":
        p2 = profile_of(rows, cands[1:] + cands[:1])
    else:
        raise ValueError(rel)
    if ctx.canary == "compare-with-different-seats" and rule not in UTILS:
        m = m + 1
    rb = run_rule(ctx, rule, p2, m, opts2)
    compare(ctx, ra, rb, inv, f"{rule} under {rel}")
    return {"kind": ra[0]}


# ---------------------------------------------------------------------------
# R6: two interpreters with different PYTHONHASHSEED compute the same outcome function
# ---------------------------------------------------------------------------
@harness("c08.leaf", extra=c01.EXTRA, path_alarm=90.0)
def leaf(ctx):
    P = ctx.params
    rule, m, opts, cands = P["rule"], P["m"], P.get("opts", {}), P["cands"]
    rows = build(ctx, P)
    r = run_rule(ctx, rule, profile_of(rows, cands), m, opts)
    ctx.require(True, "c08:leaf")
    if r[0] == "states":
        if any(st.tiebreaks for st in r[1]) or any(c.get("random") for c in ctx.rlog):
            return {"kind": "random"}
        return {"kind": "states", "states": [{"el": C.groups_json(s.elected), "out": C.groups_json(s.eliminated), "rem": C.groups_json(s.remaining)} for s in r[1]]}
    if r[0] == "scores":
        return {"kind": "scores", "keys": sorted(map(str, r[1])), "tiers": [sorted(t) for t in r[2]] if len(r) > 2 else None}
    if r[0] == "map":
        return {"kind": "map", "keys": sorted(map(str, r[1][0])), "cands": list(r[1][1])}
    return {"kind": r[0], "type": r[1]}


def leaf_worker_main():
    """subprocess entry: explore c08.leaf under this interpreter's hash seed, dump leaves"""
    from sx import engine
    task = json.loads(sys.argv[2])
    task["collect_leaves"] = True
    res = engine.run_task(task)
    json.dump({"leaves": res.get("leaves", []), "paths": res["paths"], "exhausted": res["exhausted"], "queries": res["queries"],
               "solver_s": res["solver_s"], "decisions": res["decisions"], "inconclusive": res["inconclusive"], "harness_errors": res["harness_errors"],
               "vars": res.get("leaf_vars", [])}, open(sys.argv[3], "w"))


def concrete_outcome_main():
    from sx import engine
    spec = json.loads(sys.argv[2])
    r = engine.run_conc("c08.leaf", spec["params"], spec["model"], [], alarm=60.0)
    print(json.dumps(r.get("outcome"), sort_keys=True))


def run_seed_compare(task):
    import z3
    t0 = time.time()
    seeds = task["seeds"]
    root = os.path.dirname(os.path.dirname(os.path.abspath(__file__)))
    bdir = os.path.join(root, "build", "c08")
    os.makedirs(bdir, exist_ok=True)
    base = {"harness": "c08.leaf", "params": task["params"], "xval_stride": 0, "record_functions": False}
    outs = {}
    procs = []
    for s in seeds:
        f = os.path.join(bdir, f"leaves-{os.getpid()}-{task['index']}-{s}.json")
        env = dict(os.environ, PYTHONHASHSEED=str(s), SX_KEEP_HASHSEED="1")
        procs.append((s, f, subprocess.Popen([sys.executable, "-c", "import sys; sys.path.insert(0, %r); sys.path.append(%r); from props import c08; c08.leaf_worker_main()" % (root, os.path.join(root, ".deps")),
                                              "x", json.dumps(base), f], env=env, stdout=subprocess.DEVNULL, stderr=subprocess.PIPE)))
    res = {"task": task, "paths": 0, "decisions": 0, "queries": 0, "solver_s": 0.0, "unknown": 0, "violations": [], "violation_count": 0,
           "inconclusive": [], "harness_errors": [], "xval": 0, "xval_mismatch": [], "asserted": 0, "exhausted": True, "samples": [], "functions": {}, "patched": [],
           "extra": {"hash_seeds_compared": len(seeds), "leaf_pairs_checked": 0}}
    for s, f, p in procs:
        _, err = p.communicate()
        if p.returncode != 0 or not os.path.exists(f):
            res["harness_errors"].append(f"seed {s}: leaf worker failed: {err.decode()[-400:]}")
            continue
        outs[s] = json.load(open(f))
        os.remove(f)
        d = outs[s]
        res["paths"] += d["paths"]
        res["decisions"] += d["decisions"]
        res["queries"] += d["queries"]
        res["solver_s"] += d["solver_s"]
        res["exhausted"] = res["exhausted"] and d["exhausted"]
        res["inconclusive"] += d["inconclusive"]
        res["harness_errors"] += d["harness_errors"]
    if len(outs) != len(seeds):
        return res
    names = outs[seeds[0]]["vars"]
    decls = "".join(f"(declare-const {n} Real)\n" for n in names)
    zvars = {n: z3.Real(n) for n in names}

    def parse(pc):
        return z3.And(*z3.parse_smt2_string(decls + "(assert " + pc + ")"))

    s1 = seeds[0]
    A = [(parse(l["pc"]), l["outcome"]) for l in outs[s1]["leaves"]]
    for s2 in seeds[1:]:
        B = [(parse(l["pc"]), l["outcome"]) for l in outs[s2]["leaves"]]
        for pa, oa in A:
            if oa.get("kind") == "random":
                continue
            G = [pb for pb, ob in B if ob == oa or ob.get("kind") == "random"]
            sol = z3.SolverFor("QF_NRA")
            sol.set("timeout", 30000)
            sol.add(pa)
            if G:
                sol.add(z3.Not(z3.Or(*G)))
            res["queries"] += 1
            res["extra"]["leaf_pairs_checked"] += 1
            tq = time.time()
            r = sol.check()
            res["solver_s"] += time.time() - tq
            if r == z3.unknown:
                res["inconclusive"].append("leaf comparison unknown")
            elif r == z3.sat:
                mdl = sol.model()
                model = core.model_to_dict(mdl, zvars)
                res["violation_count"] += 1
                if len(res["violations"]) < 3:
                    res["violations"].append({"label": "c08:hash-seed-changes-outcome", "detail": f"PYTHONHASHSEED {s1} vs {s2}: outcome {json.dumps(oa)[:200]}",
                                              "model": model, "script": [], "path": 0, "seeds": [s1, s2]})
    res["asserted"] = res["extra"]["leaf_pairs_checked"]
    res["wall_s"] = time.time() - t0
    res["samples"] = [{"seeds": seeds, "leaves_per_seed": [len(outs[s]["leaves"]) for s in seeds], "outcome": outs[s1]["leaves"][0]["outcome"] if outs[s1]["leaves"] else None}]
    return res


@harness("c08.seedcmp")
def seedcmp(ctx):
    """replay harness for R6 counterexamples: run the concrete profile in two interpreters"""
    if ctx.sym:
        ctx.require(True, "c08:noop")
        return {}
    P = ctx.params
    root = os.path.dirname(os.path.dirname(os.path.abspath(__file__)))
    outs = []
    for s in P["seeds"]:
        env = dict(os.environ, PYTHONHASHSEED=str(s), SX_KEEP_HASHSEED="1")
        r = subprocess.run([sys.executable, "-c", "import sys; sys.path.insert(0, %r); sys.path.append(%r); from props import c08; c08.concrete_outcome_main()" % (root, os.path.join(root, ".deps")),
                            "x", json.dumps({"params": P["inner"], "model": ctx.model})], env=env, capture_output=True, text=True)
        outs.append(r.stdout.strip().splitlines()[-1] if r.stdout.strip() else "ERR " + r.stderr[-200:])
    if len(set(outs)) > 1 and not any('"random"' in o for o in outs):
        raise core.ConcViolation("c08:hash-seed-changes-outcome", f"{outs}")
    return {"kind": "same"}


def tasks(tier, seed):
    q = tier == "quick"
    out = []
    fams3 = F.base3(q)
    o = lambda s, tb=None, qu="droop": {"quota": qu, "simultaneous": s, "transfer": "fractional", "tiebreak": tb}
    rules = [("STV", 2, o(True)), ("STV", 1, o(False)), ("SequentialRCV", 2, {"quota": "droop", "simultaneous": False, "tiebreak": None}),
             ("IRV", 1, {"quota": "droop", "tiebreak": None}), ("Plurality", 2, {"tiebreak": None}), ("Borda", 1, {"tiebreak": None}),
             ("TopTwo", 1, {"tiebreak": None}), ("Alaska", 1, dict(o(True), m_1=2)), ("DominatingSets", 1, {}), ("CondoBorda", 2, {}),
             ("fpv", 0, {}), ("borda", 0, {}), ("mentions", 0, {}), ("remove_cand", 0, {"removed": ["B"]}), ("remove_cand", 0, {"removed": "B"}),
             ("remove_cand", 0, {"removed": "C"}), ("pairwise", 0, {})]
    rels = ["rename0", "rename1", "reverse", "rotate", "split", "condense", "candorder", "candrot"]
    def t(rule, m, opts, sup, rel, cands=C.K3, **kw):
        d = {"harness": "c08.meta", "params": {"rule": rule, "m": m, "opts": opts, "family": sup, "cands": cands, "relation": rel, "nmax": 6},
             "sig_keys": ["rule", "relation"], "name": f"{rule} m={m} {rel} {[C.shape_str(s) for s in sup]}", "xval_stride": 4, "weight": 2 * len(sup)}
        d.update(kw)
        return d
    for i, (rule, m, opts) in enumerate(rules):
        fam = fams3[i % len(fams3)]
        sups = supports_of([fam], sizes=(3,) if q else None)
        if rule in ("Plurality", "Borda", "fpv", "borda", "mentions", "remove_cand"):
            sups = sups + supports_of([F.fam("AB>C", "A>BC", "C>B")], sizes=(3,) if q else (2, 3))
        for j, sup in enumerate(sups):
            use = (rels + ["rename3", "rename4"]) if not q else [rels[(i + j) % len(rels)], rels[(i + j + 3) % len(rels)], "rename0"]
            if q and rule in ("STV", "IRV", "SequentialRCV", "Alaska", "TopTwo", "remove_cand", "Plurality"):
                use.append("rename3" if (i + j) % 2 == 0 else "rename4")
            if len(sup) >= 2 and sup[0] != sup[-1] and not q:
                pass
            for rel in dict.fromkeys(use):
                out.append(t(rule, m, opts, sup + ([sup[0]] if rel == "condense" else []), rel,
                             split=3 if rule in ("STV", "IRV", "SequentialRCV", "Alaska", "TopTwo") else 0))
    # several candidates without a single first-place vote: the elimination order among them may only come from a
    # recorded (random) tiebreak, never from set iteration order
    zero_rules = [("STV", 2, o(True)), ("STV", 2, o(False)), ("SequentialRCV", 2, {"quota": "droop", "simultaneous": True, "tiebreak": None})]
    for rule, m, opts in zero_rules:
        for sup in ([F.fam("A")] if q else [F.fam("A"), F.fam("A", "A>B")]):
            for rel in ("rename0", "rename6", "candorder", "rename3") if q else rels + ["rename3", "rename4", "rename5", "rename6"]:
                out.append(t(rule, m, opts, sup, rel))
    if not q:
        for rule, m, opts in zero_rules + [("STV", 3, o(True)), ("IRV", 1, {"quota": "droop", "tiebreak": None})]:
            for sup in (F.fam("A>B"), F.fam("A>B", "B>A"), F.fam("A", "B")):
                for rel in ("rename0", "rename5", "rename6", "candorder", "candrot"):
                    out.append(t(rule, m, opts, sup, rel, cands=C.K4))
    for rule, L, k in (("Rating", 1, None), ("Approval", None, None), ("Cumulative", None, None)):
        for rel in ("rename0", "reverse", "split", "candorder") if q else rels:
            out.append({"harness": "c08.meta", "params": {"rule": rule, "m": 1, "opts": {"L": L, "k": k, "tiebreak": None}, "cands": C.K3, "relation": rel, "score": True, "nb": 2},
                        "sig_keys": ["rule", "relation"], "name": f"{rule} {rel}", "xval_stride": 4, "weight": 6})
    # R6: hash seeds
    seeds = [0, 1, 1 + (abs(hash(("seed", seed))) % 9973 if False else (seed * 7919 + 12345) % 9973)] if q else [0, 1, 2, 3, 12345, (seed * 7919 + 12345) % 9973]
    r6 = [("STV", 2, o(True)), ("STV", 1, o(False)), ("Plurality", 2, {"tiebreak": None}), ("Borda", 1, {"tiebreak": None}), ("CondoBorda", 2, {}),
          ("DominatingSets", 1, {}), ("TopTwo", 1, {"tiebreak": None}), ("Alaska", 1, dict(o(True), m_1=2)), ("pairwise", 0, {}), ("remove_cand", 0, {"removed": ["B"]})]
    for i, (rule, m, opts) in enumerate(r6):
        fam = fams3[(i + 1) % len(fams3)]
        for sup in supports_of([fam], sizes=(3,) if q else (2, 3, 4)):
            params = {"rule": rule, "m": m, "opts": opts, "family": sup, "cands": C.K3, "nmax": 6}
            out.append({"kind": "call", "module": "props.c08", "func": "run_seed_compare", "harness": "c08.seedcmp", "seeds": seeds,
                        "params": {"seeds": seeds[:2], "inner": params, **params}, "sig_keys": ["rule"], "name": f"hash seeds {seeds} {rule} m={m} {[C.shape_str(s) for s in sup]}", "weight": 8})
    for rule, m, opts in zero_rules[:2]:
        params = {"rule": rule, "m": m, "opts": opts, "family": F.fam("A"), "cands": C.K3, "nmax": 6}
        out.append({"kind": "call", "module": "props.c08", "func": "run_seed_compare", "harness": "c08.seedcmp", "seeds": seeds,
                    "params": {"seeds": seeds[:2], "inner": params, **params}, "sig_keys": ["rule"], "name": f"hash seeds {seeds} {rule} m={m} ['A']", "weight": 8,
                    "no_assert_ok": True})  # on the unchanged code every path of this family records a random tiebreak (excused)
    out.append(t("STV", 1, o(True), F.fam("A>B", "B>C", "C"), "reverse", canary="compare-with-different-seats", stop_on_violation=True, name="canary:compare-with-different-seats", xval_stride=0))
    return out


META = {
    "explanation": "metamorphic relations as oracle: each deterministic rule / scoring utility is run on a profile and, under the same path condition, on its renamed / reordered / split / condensed / candidate-permuted variant, and the rounds are compared (scores by z3 validity); independence of PYTHONHASHSEED is decided by exploring the same harness in interpreters with different hash seeds and asking z3 whether any weight vector lies in a leaf of one interpreter but in no equal-outcome leaf of the other",
    "assumptions": ["A-LD", "A-RND", "A-FMT", "A-PD", "paths with a recorded tiebreak or a random draw are outside the statement"],
}
