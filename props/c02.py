"""C02 -- each STV/IRV/SequentialRCV round is a legal step of the documented count."""
from __future__ import annotations

from . import common as C, families as F, stv
from .c01 import supports_of


def opt(q, s, tb, t="fractional"):
    return {"quota": q, "simultaneous": s, "transfer": t, "tiebreak": tb}


def option_slice(quick):
    sl = [("STV", opt("droop", True, None)), ("STV", opt("droop", False, "random")),
          ("STV", opt("hare", False, "borda")), ("STV", opt("droop", False, "first_place")),
          ("SequentialRCV", {"quota": "droop", "simultaneous": False, "tiebreak": "random"}),
          ("SequentialRCV", {"quota": "droop", "simultaneous": True, "tiebreak": None}),
          ("IRV", {"quota": "droop", "tiebreak": "random"}), ("IRV", {"quota": "hare", "tiebreak": None})]
    if quick:
        return sl
    out = []
    for q in ("droop", "hare"):
        for s in (True, False):
            for tb in (None, "random", "borda", "first_place"):
                out.append(("STV", opt(q, s, tb)))
                out.append(("SequentialRCV", {"quota": q, "simultaneous": s, "tiebreak": tb}))
        for tb in (None, "random"):
            out.append(("IRV", {"quota": q, "tiebreak": tb}))
    return out


CANARIES = ["droop-without-plus-one", "elect-on-strictly-greater", "transfer-over-threshold", "eliminate-highest"]


def tasks(tier, seed, checks=("c02",), canaries=CANARIES):
    q = tier == "quick"
    fams3 = F.base3(q)
    out = []
    sl = option_slice(q)
    for i, (rule, o) in enumerate(sl):
        fams = [fams3[i % len(fams3)], fams3[(i + 2) % len(fams3)]] if q else [fams3[(i + j) % len(fams3)] for j in range(3)]
        sizes = (1, 2, 3) if q else None
        ms = (1,) if rule == "IRV" else ((1, 2) if q else (1, 2, 3))
        for sup in supports_of(fams, sizes=sizes):
            for m in ms:
                out.append(stv.mk_task(rule, m, o, sup, C.K3, checks, nmax=6 if q else 9, weight=len(sup),
                                       xval_stride=4 if q else 10))
    if not q:
        for (rule, o) in sl[:6]:
            for fam in F.base4(False)[:2]:
                for sup in supports_of([fam], sizes=(2, 3)):
                    for m in (2, 3):
                        out.append(stv.mk_task(rule, m, o, sup, C.K4, checks, nmax=8, weight=3 * len(sup), xval_stride=10))
    # candidate names that contain one another
    nfam = C.rename_family(fams3[0], C.NESTED3)
    for (rule, o) in (sl[0], sl[1], sl[4]):
        for sup in supports_of([nfam], sizes=(2, 3)):
            out.append(stv.mk_task(rule, 2, o, sup, C.rename_cands(C.K3, C.NESTED3), checks, nmax=6, weight=len(sup), xval_stride=6))
    # canaries: deliberately wrong oracle variants that must be refuted on the unchanged tree
    cfam = F.fam("A>B", "B>C", "C>A", "A")
    for cn in canaries:
        out.append(stv.mk_task("STV", 2 if cn != "eliminate-highest" else 1, opt("droop", True, None), cfam, C.K3, checks,
                               nmax=6, canary=cn, stop_on_violation=True, name=f"canary:{cn}", xval_stride=0))
    return out


META = {
    "explanation": "real STV/IRV/SequentialRCV constructors executed on proxies; each recorded round is compared by z3 with a spec step written from the statement (threshold formula, who is elected/eliminated, transfer weights, reported tallies and order)",
    "assumptions": ["A-LD", "A-RND", "A-FMT", "A-PD", "runs that raise (boundary tie without tiebreak, known defects F3/F12) are C01's subject and end the path here"],
}
