"""C15 -- closed-form model probabilities equal their definitions (exact real arithmetic:
floats are abstracted as reals; rounding, overflow and underflow are outside the claim)."""
from __future__ import annotations

import builtins
import itertools
from fractions import Fraction as RealFraction

from sx import core, env
from sx.core import eq, ne, le, lt, ge, gt, AND, OR, NOT, add, sub, mul, div, num
from sx.engine import harness
from sx.env import factory, sym_only, sym_float
from . import common as C

PI_MOD = "votekit.pref_interval"
BG_MOD = "votekit.ballot_generator"


def sym_round(x, nd=None):
    """round() under the real-arithmetic abstraction: proxies pass through (sum-to-one is assumed exactly)"""
    if isinstance(x, core.SF):
        return x
    return builtins.round(x, nd) if nd is not None else builtins.round(x)


EXTRA = {(PI_MOD, "round"): sym_only(sym_round), (BG_MOD, "round"): sym_only(sym_round), (BG_MOD, "pow"): sym_only(lambda a, b: a ** b)}


def fl(ctx, name, lo=None, hi=None, lo_strict=False):
    """a float-typed parameter: proxy (real abstraction) in sym mode, python float in conc mode"""
    v = ctx.real(name, lo=lo, hi=hi, lo_strict=lo_strict, snap=True)
    return v if ctx.sym else float(v)


def same(ctx, a, b, label, detail=""):
    if ctx.sym and (core.is_sym(a) or core.is_sym(b)):
        return ctx.require_ratio_eq(a, b, label, detail)
    a, b = float(a), float(b)
    ok = abs(a - b) <= 1e-9 * max(1.0, abs(a), abs(b))
    return ctx.require(ok, label, detail + f" ({a} vs {b})")


def ex(v):
    """exact value of a parameter for the oracle side (Fraction of the float in conc mode)"""
    return v if isinstance(v, core.SF) else RealFraction(v)


@harness("c15.interval", extra=EXTRA, float_mix="real")
def interval(ctx):
    from votekit.pref_interval import PreferenceInterval
    P = ctx.params
    names = P["cands"]
    s = {c: fl(ctx, f"s_{c}", lo=0) for c in names}
    try:
        pi = PreferenceInterval(dict(s))
    except ZeroDivisionError:
        ctx.require(AND(*[eq(ex(v), 0) for v in s.values()]), "c15:interval-zerodivision-with-support")
        return {"kind": "all-zero"}
    except Exception as exc:
        ctx.fail(f"c15:interval-raises:{type(exc).__name__}", str(exc)[:200])
        return {"kind": "exc"}
    zero = sorted(c for c in names if ctx.truth(eq(ex(s[c]), 0)))
    if sorted(pi.zero_cands) != zero or sorted(pi.non_zero_cands) != sorted(c for c in names if c not in zero):
        ctx.fail("c15:zero-support-sets", f"zero_cands {sorted(pi.zero_cands)} non_zero {sorted(pi.non_zero_cands)} expected zero {zero}")
        return {"kind": "bad"}
    if sorted(pi.interval) != sorted(c for c in names if c not in zero):
        ctx.fail("c15:interval-keys", f"{sorted(pi.interval)}")
        return {"kind": "bad"}
    tot = add(*[ex(s[c]) for c in names])
    for c in pi.interval:
        want = div(ex(s[c]), tot)
        if ctx.canary == "normalise-by-max":
            want = div(ex(s[c]), ex(s[names[0]]))
        same(ctx, pi.interval[c], want, "c15:interval-normalisation", f"interval[{c}] is not support/sum(supports)")
    return {"kind": "ok", "zero": zero}


@harness("c15.combine", extra=EXTRA, float_mix="real")
def combine(ctx):
    from votekit.pref_interval import PreferenceInterval, combine_preference_intervals
    P = ctx.params
    groups = P["groups"]  # list of candidate-name lists
    ivs, raw = [], []
    for gi, g in enumerate(groups):
        s = {c: fl(ctx, f"s{gi}_{c}", lo=0) for c in g}
        ctx.assume(gt(add(*[ex(v) for v in s.values()]), 0))
        raw.append(s)
        ivs.append(PreferenceInterval(dict(s)))
    props = [fl(ctx, f"p{i}", lo=0, hi=1) for i in range(len(groups) - 1)]
    last = sub(1, add(*[ex(p) for p in props])) if props else RealFraction(1)
    ctx.assume(ge(last, 0))
    props = props + [last if ctx.sym else float(last)]
    try:
        res = combine_preference_intervals(ivs, props)
    except Exception as exc:
        ctx.fail(f"c15:combine-raises:{type(exc).__name__}", str(exc)[:200])
        return {"kind": "exc"}
    want_zero = set()
    for gi, g in enumerate(groups):
        tot = add(*[ex(raw[gi][c]) for c in g])
        pz = ctx.truth(eq(ex(props[gi]), 0))
        for c in g:
            if pz or ctx.truth(eq(ex(raw[gi][c]), 0)):
                want_zero.add(c)
                continue
            if c not in res.interval:
                ctx.fail("c15:combine-missing-candidate", c)
                continue
            want = mul(ex(props[gi]), div(ex(raw[gi][c]), tot))
            if ctx.canary == "cohesion-share-dropped":
                want = div(ex(raw[gi][c]), tot)
            same(ctx, res.interval[c], want, "c15:combine-value", f"combined[{c}] is not cohesion share * interval value")
    if set(res.zero_cands) != want_zero or set(res.interval) != set(c for g in groups for c in g) - want_zero:
        ctx.fail("c15:combine-zero-cands", f"{sorted(res.zero_cands)} vs {sorted(want_zero)}")
    return {"kind": "ok"}


def bt_def(order, y):
    p = RealFraction(1)
    for i in range(len(order)):
        for j in range(i + 1, len(order)):
            p = mul(p, div(y[order[i]], add(y[order[i]], y[order[j]])))
    return p


@harness("c15.bt_pdf", extra=EXTRA, float_mix="real", path_alarm=1500.0)
def bt_pdf(ctx):
    bg = env.import_generators()
    P = ctx.params
    names = P["cands"]
    # "fixed": supports given as concrete rationals (5 candidates: 120 rankings of degree-10 terms are beyond
    # z3's reach when all five supports are symbolic)
    fixed = P.get("fixed", {})
    y = {c: (RealFraction(fixed[c]) if c in fixed else fl(ctx, f"y_{c}", lo=0, lo_strict=True)) for c in names}
    obj = object.__new__(bg.name_BradleyTerry)
    try:
        pdf = obj._BT_pdf(dict(y))
    except Exception as exc:
        ctx.fail(f"c15:bt-raises:{type(exc).__name__}", str(exc)[:200])
        return {"kind": "exc"}
    perms = list(itertools.permutations(names))
    if set(pdf) != set(perms):
        ctx.fail("c15:bt-support", f"{len(pdf)} entries")
        return {"kind": "bad"}
    yy = {c: ex(v) for c, v in y.items()}
    d = {s: bt_def(s, yy) for s in perms}
    if ctx.canary == "bt-exponent-off-by-one":
        d = {s: mul(bt_def(s, yy), yy[s[0]]) for s in perms}
    tot = add(*d.values())
    for s in perms:
        same(ctx, pdf[s], div(d[s], tot), "c15:bt-probability", f"P({s}) is not proportional to prod x/(x+y)")
    same(ctx, add(*[ex(v) if not isinstance(v, core.SF) else v for v in pdf.values()]), 1, "c15:bt-sums-to-one")
    return {"kind": "ok", "n": len(perms)}


@harness("c15.sbt_pdf", extra=EXTRA, float_mix="real")
def sbt_pdf(ctx):
    """ballot-type tables of BOTH blocs of one generator-like object (own cohesion symbolic for each bloc:
    equal values, and state shared between the two computations, are part of the explored space)"""
    bg = env.import_generators()
    from votekit.pref_interval import PreferenceInterval
    P = ctx.params
    a, b = P["sizes"]
    blocs = ["X", "Y"]
    cx = fl(ctx, "c", lo=0, hi=1)
    cy = fl(ctx, "cy", lo=0, hi=1)
    obj = object.__new__(bg.slate_BradleyTerry)
    obj.blocs = blocs
    slates = {"X": [f"x{i}" for i in range(a)], "Y": [f"y{i}" for i in range(b)]}
    zero_x = P.get("zero_x", 0)
    ivx = lambda: PreferenceInterval({c: (0.0 if i < zero_x else 1.0) for i, c in enumerate(slates["X"])})
    ivy = lambda: PreferenceInterval({c: 1.0 for c in slates["Y"]})
    obj.pref_intervals_by_bloc = {"X": {"X": ivx(), "Y": ivy()}, "Y": {"X": ivx(), "Y": ivy()}}
    one = lambda v: (sub(1, v) if ctx.sym else 1 - v)
    obj.cohesion_parameters = {"X": {"X": cx, "Y": one(cx)}, "Y": {"X": one(cy), "Y": cy}}
    na = a - zero_x
    for own, opp, coh in (("X", "Y", cx), ("Y", "X", cy)):
        try:
            pdf = obj._compute_ballot_type_dist(own, opp)
        except ZeroDivisionError:
            ctx.require(True, "c15:sbt-degenerate")
            continue
        except Exception as exc:
            ctx.fail(f"c15:sbt-raises:{type(exc).__name__}", str(exc)[:200])
            return {"kind": "exc"}
        types = set(itertools.permutations(["X"] * na + ["Y"] * b))
        if set(pdf) != types:
            ctx.fail("c15:sbt-support", f"{sorted(pdf)}")
            return {"kind": "bad"}
        cc = ex(coh)
        def g(t):
            ownabove = sum(t[i + 1:].count(opp) for i, x in enumerate(t) if x == own)
            other = na * b - ownabove
            if ctx.canary == "swap-cohesion":
                ownabove, other = other, ownabove
            r = RealFraction(1)
            for _ in range(ownabove):
                r = mul(r, cc)
            for _ in range(other):
                r = mul(r, sub(1, cc))
            return r
        gs = {t: g(t) for t in types}
        tot = add(*gs.values())
        if ctx.truth(eq(tot, 0)) if ctx.sym else tot == 0:
            continue
        for t in types:
            same(ctx, pdf[t], div(gs[t], tot), "c15:sbt-probability", f"bloc {own}: P({t}) is not proportional to c^own-above-other * (1-c)^other-above-own")
        same(ctx, add(*[v if isinstance(v, core.SF) else ex(v) for v in pdf.values()]), 1, "c15:sbt-sums-to-one")
    return {"kind": "ok"}


@harness("c15.model_interval", extra=EXTRA, float_mix="real")
def model_interval(ctx):
    """pref_interval_by_bloc built by the name models == combine(intervals, cohesion row)"""
    bg = env.import_generators()
    from votekit.pref_interval import PreferenceInterval
    P = ctx.params
    cls = getattr(bg, P["cls"])
    slates = {"X": ["x0", "x1"], "Y": ["y0"]}
    sx = {c: fl(ctx, f"sx_{c}", lo=0, lo_strict=True) for c in slates["X"]}
    cx = fl(ctx, "cx", lo=0, hi=1)
    one_minus = sub(1, cx) if ctx.sym else 1 - cx
    kw = dict(candidates=slates["X"] + slates["Y"],
              pref_intervals_by_bloc={"X": {"X": PreferenceInterval(dict(sx)), "Y": PreferenceInterval({"y0": 1.0})},
                                      "Y": {"X": PreferenceInterval({"x0": 1.0, "x1": 1.0}), "Y": PreferenceInterval({"y0": 1.0})}},
              bloc_voter_prop={"X": 0.5, "Y": 0.5},
              # inner dictionaries deliberately written own-bloc-first (a legal key order that differs from the bloc order)
              cohesion_parameters={"X": {"X": cx, "Y": one_minus}, "Y": {"Y": 0.75, "X": 0.25}})
    if P["cls"] == "name_Cumulative":
        kw["num_votes"] = 2
    if P["cls"] == "short_name_PlackettLuce":
        kw["ballot_length"] = 2
    try:
        gen = cls(**kw)
    except Exception as exc:
        ctx.fail(f"c15:model-raises:{type(exc).__name__}", str(exc)[:200])
        return {"kind": "exc"}
    pi = gen.pref_interval_by_bloc["X"]
    tot = add(*[ex(v) for v in sx.values()])
    for c in slates["X"]:
        if ctx.truth(eq(ex(cx), 0)):
            if c not in pi.zero_cands:
                ctx.fail("c15:model-zero-share", c)
            continue
        same(ctx, pi.interval[c], mul(ex(cx), div(ex(sx[c]), tot)), "c15:model-interval", f"{P['cls']}: combined interval of bloc X at {c}")
    if not ctx.truth(eq(ex(cx), 1)):
        same(ctx, pi.interval["y0"], sub(1, ex(cx)), "c15:model-interval", f"{P['cls']}: combined interval of bloc X at y0")
    # bloc Y (concrete parameters, dictionary written Y-first): 0.25 * (1/2, 1/2) on the X slate, 0.75 on y0
    piy = gen.pref_interval_by_bloc["Y"]
    for c, want in (("x0", RealFraction(1, 8)), ("x1", RealFraction(1, 8)), ("y0", RealFraction(3, 4))):
        same(ctx, piy.interval[c] if c in piy.interval else 0, want, "c15:model-interval", f"{P['cls']}: combined interval of bloc Y at {c} (cohesion dictionary in own-bloc-first order)")
    if P["cls"] == "name_BradleyTerry":
        # the precomputed table of bloc Y must be the Bradley-Terry table of that combined interval
        yy = {"x0": RealFraction(1, 8), "x1": RealFraction(1, 8), "y0": RealFraction(3, 4)}
        perms = list(itertools.permutations(list(yy)))
        d = {s_: bt_def(s_, yy) for s_ in perms}
        tot = add(*d.values())
        pdf = gen.pdfs_by_bloc["Y"]
        if set(pdf) != set(perms):
            ctx.fail("c15:bt-support", f"bloc Y table has {len(pdf)} rankings")
        else:
            for s_ in perms:
                same(ctx, pdf[s_], div(d[s_], tot), "c15:bt-probability", f"bloc Y: P({s_})")
    return {"kind": "ok"}


def tasks(tier, seed):
    q = tier == "quick"
    out = []
    for n in ((1, 2, 3) if q else (1, 2, 3, 4, 5)):
        out.append({"harness": "c15.interval", "params": {"cands": list("abcde")[:n]}, "name": f"interval n={n}", "xval_stride": 1})
    for groups in ([["a", "b"], ["c"]], [["a"], ["b"], ["c"]]) + (() if q else ([["a", "b"], ["c", "d"], ["e"]],)):
        out.append({"harness": "c15.combine", "params": {"groups": groups}, "name": f"combine {groups}", "xval_stride": 1, "split": 2})
    for n in (2, 3, 4):
        out.append({"harness": "c15.bt_pdf", "params": {"cands": list("abcdef")[:n]}, "name": f"BT pdf n={n}", "xval_stride": 1, "weight": n ** 3})
    if not q:
        for fixed in ({"c": "1/3", "d": "5/2", "e": "7/4"}, {"a": "2", "b": "1/5", "e": "3"}):
            out.append({"harness": "c15.bt_pdf", "params": {"cands": list("abcde"), "fixed": fixed}, "name": f"BT pdf n=5 fixed {sorted(fixed)}", "xval_stride": 1, "weight": 125})
    sizes = [(1, 1), (2, 1), (2, 2), (1, 3)] if q else [(a, b) for a in range(1, 5) for b in range(1, 5) if a + b <= 6]
    for sz in sizes:
        out.append({"harness": "c15.sbt_pdf", "params": {"sizes": sz}, "name": f"slate-BT types {sz}", "xval_stride": 1, "weight": 5})
    out.append({"harness": "c15.sbt_pdf", "params": {"sizes": (3, 1), "zero_x": 1}, "name": "slate-BT types (3,1) one zero-support", "xval_stride": 1})
    for cls in ("name_PlackettLuce", "name_BradleyTerry", "name_Cumulative", "short_name_PlackettLuce"):
        out.append({"harness": "c15.model_interval", "params": {"cls": cls}, "name": f"model interval {cls}", "xval_stride": 1})
    can = [("c15.interval", {"cands": ["a", "b"]}, "normalise-by-max"), ("c15.combine", {"groups": [["a"], ["b"]]}, "cohesion-share-dropped"),
           ("c15.bt_pdf", {"cands": ["a", "b"]}, "bt-exponent-off-by-one"), ("c15.sbt_pdf", {"sizes": (2, 1)}, "swap-cohesion")]
    for h, p, cn in can:
        out.append({"harness": h, "params": p, "canary": cn, "stop_on_violation": True, "name": f"canary:{cn}", "xval_stride": 0})
    return out


META = {
    "explanation": "PreferenceInterval, combine_preference_intervals, name_BradleyTerry._BT_pdf, slate_BradleyTerry._compute_ballot_type_dist and the name models' combined intervals executed with supports/cohesion as proxies in exact real arithmetic; every table entry is compared with its defining rational function by z3 after factor-aware normalisation; counterexamples are replayed on the real float code at the nearest doubles (relative tolerance 1e-9)",
    "assumptions": ["floats abstracted as reals: rounding, overflow and underflow are outside the claim", "round(x, 8) != 1 is modelled as x != 1 (proportions summing to one exactly)", "A-FMT", "Bradley-Terry table: n <= 4 candidates (quick) / 5 (thorough); 6 and 7 candidates (720 / 5040 permutations) are not reached within the time budget"],
}
