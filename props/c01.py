"""C01 -- every election terminates with exactly m winners and a consistent outcome."""
from __future__ import annotations

import itertools

from sx import core
from sx.core import PathBudget, eq, ne, le, lt, ge, gt, AND, OR, NOT, IMPL, add
from sx.engine import harness
from sx.env import factory
from . import common as C
from . import families as F

STV_MOD = "votekit.elections.election_types.ranking.stv"
WRAP_MODS = [STV_MOD,
             "votekit.elections.election_types.ranking.plurality",
             "votekit.elections.election_types.ranking.borda",
             "votekit.elections.election_types.ranking.condo_borda",
             "votekit.elections.election_types.scores.rating"]


def _make_elect_wrapper(ctx):
    import votekit.utils as U
    real = U.elect_cands_from_set_ranking
    ctx.notes["elect_calls"] = []

    def wrapper(ranking, m, profile=None, tiebreak=None):
        ctx.notes["elect_calls"].append((ranking, m, profile, tiebreak))
        return real(ranking, m, profile=profile, tiebreak=tiebreak)

    return wrapper


EXTRA = {(mn, "elect_cands_from_set_ranking"): factory(_make_elect_wrapper) for mn in WRAP_MODS}


def construct(rule, profile, m, opts):
    from votekit import elections as E
    tb = opts.get("tiebreak")
    tr = {"fractional": E.fractional_transfer, "random": E.random_transfer}[opts.get("transfer", "fractional")]
    q = opts.get("quota", "droop")
    sim = opts.get("simultaneous", True)
    if rule == "STV":
        return E.STV(profile, m=m, transfer=tr, quota=q, simultaneous=sim, tiebreak=tb)
    if rule == "IRV":
        return E.IRV(profile, quota=q, tiebreak=tb)
    if rule == "SequentialRCV":
        return E.SequentialRCV(profile, m=m, quota=q, simultaneous=sim, tiebreak=tb)
    if rule == "Plurality":
        return E.Plurality(profile, m=m, tiebreak=tb)
    if rule == "SNTV":
        return E.SNTV(profile, m=m, tiebreak=tb)
    if rule == "Borda":
        return E.Borda(profile, m=m, score_vector=opts.get("score_vector"), tiebreak=tb)
    if rule == "TopTwo":
        return E.TopTwo(profile, tiebreak=tb)
    if rule == "Alaska":
        return E.Alaska(profile, m_1=opts["m_1"], m_2=m, transfer=tr, quota=q, simultaneous=sim, tiebreak=tb)
    if rule == "DominatingSets":
        return E.DominatingSets(profile)
    if rule == "CondoBorda":
        return E.CondoBorda(profile, m=m)
    if rule == "RandomDictator":
        return E.RandomDictator(profile, m=m)
    if rule == "BoostedRandomDictator":
        return E.BoostedRandomDictator(profile, m=m)
    if rule == "PluralityVeto":
        return E.PluralityVeto(profile, m=m, tiebreak=tb)
    raise ValueError(rule)


def where_raised(exc):
    tb = exc.__traceback__
    last = None
    while tb is not None:
        fn = tb.tb_frame.f_code.co_filename
        if "/votekit/" in fn:
            last = tb.tb_frame.f_code.co_name
        tb = tb.tb_next
    return last or "?"


def deciding_scores(rule, opts, present, cands):
    if rule == "Borda":
        vec = opts.get("score_vector") or list(range(len(cands), 0, -1))
        return C.def_positional(present, cands, vec)
    return C.def_fpv(present, cands)


SINGLE_ROUND = ("Plurality", "SNTV", "Borda")


def check_outcome(ctx, e, rule, m, opts, cands, present, label_prefix=""):
    """partition / monotone status / winner count on a finished election object"""
    L = label_prefix
    n = len(cands)
    states = e.election_states
    status = {c: "R" for c in cands}
    ok = True
    for r in range(len(states)):
        el = C.flat(e.get_elected(r))
        out = C.flat(e.get_eliminated(r))
        rem = C.flat(e.get_remaining(r))
        allc = el + out + rem
        if sorted(allc) != sorted(cands):
            ctx.fail(L + "partition", f"round {r}: elected={el} eliminated={out} remaining={rem}")
            ok = False
            break
        now = {c: "E" for c in el}
        now.update({c: "X" for c in out})
        now.update({c: "R" for c in rem})
        for c in cands:
            if status[c] != "R" and now[c] != status[c]:
                ctx.fail(L + "status-not-monotone", f"round {r}: {c} {status[c]}->{now[c]}")
                ok = False
        status = now
    if not ok:
        return False
    elected = C.flat(e.get_elected())
    if rule in ("IRV", "TopTwo"):
        want = 1
    elif rule == "DominatingSets":
        want = None
    else:
        want = m
    if want is not None and len(elected) != want:
        ctx.fail(L + "winner-count", f"elected {elected} but {want} seats")
        return False
    ctx.require(True, L + "outcome-consistent")
    return True


@harness("c01.election", extra=EXTRA, path_alarm=40.0)
def election(ctx):
    P = ctx.params
    rule, m, opts, cands = P["rule"], P["m"], P.get("opts", {}), P["cands"]
    profile, present = C.family_profile(ctx, P["family"], cands, nmax=P.get("nmax"), integer_w=P.get("W"), strict=P.get("strict", False))
    tb = opts.get("tiebreak")
    try:
        e = construct(rule, profile, m, opts)
    except PathBudget:
        ctx.fail("nontermination", f"{rule} did not finish")
        return {"kind": "nonterm"}
    except ValueError as exc:
        where = where_raised(exc)
        calls = ctx.notes.get("elect_calls", [])
        if tb is not None:
            ctx.fail(f"exc:ValueError@{where}", f"ValueError although tiebreak={tb}: {exc}")
            return {"kind": "exc", "type": "ValueError"}
        if where != "elect_cands_from_set_ranking" or not calls:
            ctx.fail(f"exc:ValueError@{where}", str(exc)[:200])
            return {"kind": "exc", "type": "ValueError"}
        ranking, mm, prof, _ = calls[-1]
        # the straddling set of that call
        cnt = 0
        tied = None
        for s in ranking:
            if cnt < mm < cnt + len(s):
                tied = s
            cnt += len(s)
        if tied is None:
            ctx.fail("valueerror-without-straddling-set", str(exc)[:200])
            return {"kind": "exc", "type": "ValueError"}
        cur_present = C.ballots_as_present(prof)
        cur_cands = list(prof.candidates)
        if rule == "Borda":
            sc = C.def_positional(cur_present, cur_cands, opts.get("score_vector") or list(range(len(cur_cands), 0, -1)))
        else:
            sc = C.def_fpv(cur_present, cur_cands)
        tl = sorted(tied)
        ctx.require(AND(*[eq(sc[tl[0]], sc[x]) for x in tl[1:]]), "valueerror-only-on-genuine-tie",
                    f"ValueError raised for {tl} which are not tied on the deciding tally")
        if rule in SINGLE_ROUND:
            sc0 = deciding_scores(rule, opts, present, cands)
            ctx.require(C.straddle_tie(sc0, cands, m), "valueerror-iff-boundary-tie",
                        "ValueError although no tie straddles seat m by definition scores")
        return {"kind": "tie-valueerror", "tied": tl}
    except Exception as exc:
        where = where_raised(exc)
        ctx.fail(f"exc:{type(exc).__name__}@{where}", str(exc)[:200])
        return {"kind": "exc", "type": type(exc).__name__}
    ok = check_outcome(ctx, e, rule, m, opts, cands, present)
    if ok and tb is None and rule in SINGLE_ROUND:
        sc0 = deciding_scores(rule, opts, present, cands)
        cond = NOT(C.straddle_tie(sc0, cands, m))
        if ctx.canary == "accept-boundary-tie":
            cond = True
        ctx.require(cond, "result-despite-boundary-tie",
                    "a result was returned although candidates tied on the deciding tally straddle seat m and no tiebreak was requested")
        el = C.flat(e.get_elected())
        ctx.require(AND(*[ge(sc0[a], sc0[b]) for a in el for b in cands if b not in el]), "winners-not-top-m")
    if ok and tb is None and rule in ("STV", "SequentialRCV", "IRV") and not opts.get("simultaneous", True):
        # one-by-one: an elect step must not have silently resolved a tied top group
        st = e.election_states
        for r in range(1, len(st)):
            if st[r].elected != (frozenset(),) and st[r].eliminated == (frozenset(),) and len(C.flat(st[r].elected)) == 1:
                w = C.flat(st[r].elected)[0]
                prev = st[r - 1].scores
                if w in prev and not st[r].tiebreaks:
                    ctx.require(AND(*[gt(prev[w], prev[x]) for x in prev if x != w]) if len(prev) > 1 else True,
                                "silent-tiebreak-in-elect-step", f"round {r} elected {w}")
    return {"kind": "result", "states": C.states_json(e)}


# ---------------------------------------------------------------------------
def _t(rule, m, opts, fam, cands, nmax=None, W=None, name=None, **kw):
    t = {"harness": "c01.election",
         "params": {"rule": rule, "m": m, "opts": opts, "family": fam, "cands": cands, "nmax": nmax, "W": W,
                    "strict": True},
         "sig_keys": ["rule", "opts", "m"],
         "name": name or f"{rule} m={m} {opts} support={[C.shape_str(s) for s in fam]}"}
    t.update(kw)
    return t


def supports_of(fams, sizes=None):
    """all non-empty sub-supports of the given families, deduplicated"""
    seen = {}
    for fam in fams:
        for k in range(1, len(fam) + 1):
            if sizes and k not in sizes:
                continue
            for sub in itertools.combinations(fam, k):
                key = tuple(sorted(C.shape_str(s) for s in sub))
                seen.setdefault(key, list(sub))
    return list(seen.values())


def tasks(tier, seed):
    out = []
    q = tier == "quick"
    fams3 = F.base3(q)
    nmax = 6 if q else 9
    stride = 4 if q else 10
    stv_opts = F.stv_option_slice(q)
    for i, o in enumerate(stv_opts):
        fams = [fams3[i % len(fams3)]] if q else fams3
        W = 2 if o.get("transfer") == "random" else None
        for sup in supports_of(fams):
            for m in (1, 2, 3):
                out.append(_t("STV", m, o, sup, C.K3, nmax=nmax, W=W, weight=len(sup), xval_stride=stride))
    for i, o in enumerate(F.seq_option_slice(q)):
        fams = [fams3[(i + 3) % len(fams3)]] if q else fams3
        for sup in supports_of(fams):
            for m in (1, 2):
                out.append(_t("SequentialRCV", m, o, sup, C.K3, nmax=nmax, weight=len(sup), xval_stride=stride))
    for i, tb in enumerate((None, "random")):
        fams = [fams3[(i + 1) % len(fams3)]] if q else fams3
        for sup in supports_of(fams):
            out.append(_t("IRV", 1, {"quota": "droop", "tiebreak": tb}, sup, C.K3, nmax=nmax, weight=len(sup), xval_stride=stride))
    return out


META = {
    "explanation": "symbolic execution of the real election constructors over shape families with symbolic rational weights; z3 decides every branch and every assertion on every path",
    "assumptions": ["A-LD", "A-RND", "A-FMT", "A-PD"],
}
