"""C01 -- every election terminates with exactly m winners and a consistent outcome."""
from __future__ import annotations

import itertools

from sx import core
from sx.core import PathBudget, eq, ne, le, lt, ge, gt, AND, OR, NOT, IMPL, add
from sx.engine import harness
from sx.env import factory, sym_only, sym_float
from . import common as C
from . import families as F

STV_MOD = "votekit.elections.election_types.ranking.stv"
WRAP_MODS = [STV_MOD,
             "votekit.elections.election_types.ranking.plurality",
             "votekit.elections.election_types.ranking.borda",
             "votekit.elections.election_types.ranking.condo_borda",
             "votekit.elections.election_types.scores.rating"]


def _make_elect_wrapper(ctx):
    import votekit.utils as U
    real = U.elect_cands_from_set_ranking
    ctx.notes["elect_calls"] = []

    def wrapper(ranking, m, profile=None, tiebreak=None):
        ctx.notes["elect_calls"].append((ranking, m, profile, tiebreak))
        return real(ranking, m, profile=profile, tiebreak=tiebreak)

    return wrapper


class GuardList(list):
    """election_states with a round limit: more than `limit` recorded rounds ends the path as a
    non-termination candidate (then replayed concretely under a wall-clock alarm)."""
    limit = 40

    def append(self, x):
        if len(self) >= self.limit:
            raise PathBudget()
        list.append(self, x)

    def __iadd__(self, other):
        if len(self) + len(other) > self.limit:
            raise PathBudget()
        list.extend(self, other)
        return self


def _stash_factory(ctx):
    import votekit.models as M
    real = M.Election.__dict__["_run_election"]
    ctx.notes["elections"] = []

    def wrapped(self):
        ctx.notes["elections"].append(self)
        g = GuardList(self.election_states)
        if not ctx.sym:
            g.limit = 300
        self.election_states = g
        return real(self)

    return wrapped


def _boosted_np(ctx):
    import numpy as real_np
    from sx.env import NpStub, sym_np_overrides
    return NpStub(ctx, real_np, sym_np_overrides() if ctx.sym else None)


BRD = "votekit.elections.election_types.ranking.boosted_random_dictator"
EXTRA = {(mn, "elect_cands_from_set_ranking"): factory(_make_elect_wrapper) for mn in WRAP_MODS}
EXTRA[("votekit.models:Election", "_run_election")] = factory(_stash_factory)
EXTRA[(BRD, "np")] = factory(_boosted_np)
EXTRA[(BRD, "float")] = sym_only(sym_float)


def diagnose(ctx):
    """what the partially run election(s) looked like when an exception escaped (used to key findings)"""
    tags = set()
    for e in ctx.notes.get("elections", []):
        try:
            n_el = sum(len(s) for st in e.election_states for s in st.elected)
            mm = getattr(e, "m", None)
            if isinstance(mm, int) and n_el > mm:
                tags.add("over-elected")
            if hasattr(e, "quota") and isinstance(getattr(e, "threshold", None), int) and e.threshold == 0:
                tags.add("threshold=0")
        except Exception:
            pass
    if ctx.notes.get("sample_overdraw"):
        tags.add("surplus>transferable")
    return "[" + "+".join(sorted(tags)) + "]" if tags else ""


def construct(rule, profile, m, opts):
    from votekit import elections as E
    tb = opts.get("tiebreak")
    tr = {"fractional": E.fractional_transfer, "random": E.random_transfer}[opts.get("transfer", "fractional")]
    q = opts.get("quota", "droop")
    sim = opts.get("simultaneous", True)
    if rule == "STV":
        return E.STV(profile, m=m, transfer=tr, quota=q, simultaneous=sim, tiebreak=tb)
    if rule == "IRV":
        return E.IRV(profile, quota=q, tiebreak=tb)
    if rule == "SequentialRCV":
        return E.SequentialRCV(profile, m=m, quota=q, simultaneous=sim, tiebreak=tb)
    if rule == "Plurality":
        return E.Plurality(profile, m=m, tiebreak=tb)
    if rule == "SNTV":
        return E.SNTV(profile, m=m, tiebreak=tb)
    if rule == "Borda":
        return E.Borda(profile, m=m, score_vector=opts.get("score_vector"), tiebreak=tb)
    if rule == "TopTwo":
        return E.TopTwo(profile, tiebreak=tb)
    if rule == "Alaska":
        return E.Alaska(profile, m_1=opts["m_1"], m_2=m, transfer=tr, quota=q, simultaneous=sim, tiebreak=tb)
    if rule == "DominatingSets":
        return E.DominatingSets(profile)
    if rule == "CondoBorda":
        return E.CondoBorda(profile, m=m)
    if rule == "RandomDictator":
        return E.RandomDictator(profile, m=m)
    if rule == "BoostedRandomDictator":
        return E.BoostedRandomDictator(profile, m=m)
    if rule == "PluralityVeto":
        return E.PluralityVeto(profile, m=m, tiebreak=tb)
    raise ValueError(rule)


def where_raised(exc):
    import os
    if os.environ.get("SX_TRACE"):
        import traceback, sys
        traceback.print_exception(exc, file=sys.stderr)
    tb = exc.__traceback__
    last = None
    via_replay = False
    while tb is not None:
        fn = tb.tb_frame.f_code.co_filename
        if "/votekit/" in fn:
            last = tb.tb_frame.f_code.co_name
            if last == "get_profile":
                via_replay = True
        tb = tb.tb_next
    return (last or "?") + ("/via-get_profile" if via_replay else "")


def deciding_scores(rule, opts, present, cands):
    if rule == "Borda":
        vec = opts.get("score_vector") or list(range(len(cands), 0, -1))
        return C.def_positional(present, cands, vec)
    return C.def_fpv(present, cands)


SINGLE_ROUND = ("Plurality", "SNTV", "Borda")


def check_outcome(ctx, e, rule, m, opts, cands, present, label_prefix=""):
    """partition / monotone status / winner count on a finished election object"""
    L = label_prefix
    n = len(cands)
    states = e.election_states
    status = {c: "R" for c in cands}
    ok = True
    for r in range(len(states)):
        el = C.flat(e.get_elected(r))
        out = C.flat(e.get_eliminated(r))
        rem = C.flat(e.get_remaining(r))
        allc = el + out + rem
        if sorted(allc) != sorted(cands):
            ctx.fail(L + "partition", f"round {r}: elected={el} eliminated={out} remaining={rem}")
            ok = False
            break
        now = {c: "E" for c in el}
        now.update({c: "X" for c in out})
        now.update({c: "R" for c in rem})
        for c in cands:
            if status[c] != "R" and now[c] != status[c]:
                ctx.fail(L + "status-not-monotone", f"round {r}: {c} {status[c]}->{now[c]}")
                ok = False
        status = now
    if not ok:
        return False
    elected = C.flat(e.get_elected())
    if rule in ("IRV", "TopTwo"):
        want = 1
    elif rule == "DominatingSets":
        want = None
    else:
        want = m
    if want is not None and len(elected) != want:
        ctx.fail(L + "winner-count", f"elected {elected} but {want} seats")
        return False
    ctx.require(True, L + "outcome-consistent")
    return True


@harness("c01.election", extra=EXTRA, path_alarm=40.0)
def election(ctx):
    P = ctx.params
    rule, m, opts, cands = P["rule"], P["m"], P.get("opts", {}), P["cands"]
    profile, present = C.family_profile(ctx, P["family"], cands, nmax=P.get("nmax"), integer_w=P.get("W"), strict=P.get("strict", False))
    tb = opts.get("tiebreak")
    try:
        e = construct(rule, profile, m, opts)
    except PathBudget:
        ctx.fail("nontermination" + diagnose(ctx), f"{rule} did not finish")
        return {"kind": "nonterm"}
    except ValueError as exc:
        where = where_raised(exc)
        calls = ctx.notes.get("elect_calls", [])
        if tb is not None or not where.startswith("elect_cands_from_set_ranking") or not calls:
            ctx.fail(f"exc:ValueError@{where}{diagnose(ctx)}", f"tiebreak={tb}: {exc}"[:200])
            return {"kind": "exc", "type": "ValueError"}
        ranking, mm, prof, _ = calls[-1]
        # the straddling set of that call
        cnt = 0
        tied = None
        for s in ranking:
            if cnt < mm < cnt + len(s):
                tied = s
            cnt += len(s)
        if tied is None:
            ctx.fail("valueerror-without-straddling-set", str(exc)[:200])
            return {"kind": "exc", "type": "ValueError"}
        cur_present = C.ballots_as_present(prof)
        cur_cands = list(prof.candidates)
        if rule == "Borda":
            sc = C.def_positional(cur_present, cur_cands, opts.get("score_vector") or list(range(len(cur_cands), 0, -1)))
        else:
            sc = C.def_fpv(cur_present, cur_cands)
        tl = sorted(tied)
        ctx.require(AND(*[eq(sc[tl[0]], sc[x]) for x in tl[1:]]), "valueerror-only-on-genuine-tie",
                    f"ValueError raised for {tl} which are not tied on the deciding tally")
        if rule in SINGLE_ROUND:
            sc0 = deciding_scores(rule, opts, present, cands)
            ctx.require(C.straddle_tie(sc0, cands, m), "valueerror-iff-boundary-tie",
                        "ValueError although no tie straddles seat m by definition scores")
        return {"kind": "tie-valueerror", "tied": tl}
    except Exception as exc:
        where = where_raised(exc)
        ctx.fail(f"exc:{type(exc).__name__}@{where}{diagnose(ctx)}", str(exc)[:200])
        return {"kind": "exc", "type": type(exc).__name__}
    ok = check_outcome(ctx, e, rule, m, opts, cands, present)
    if ok and tb is None and rule in SINGLE_ROUND:
        sc0 = deciding_scores(rule, opts, present, cands)
        cond = NOT(C.straddle_tie(sc0, cands, m))
        if ctx.canary == "accept-boundary-tie":
            cond = True
        ctx.require(cond, "result-despite-boundary-tie",
                    "a result was returned although candidates tied on the deciding tally straddle seat m and no tiebreak was requested")
        el = C.flat(e.get_elected())
        ctx.require(AND(*[ge(sc0[a], sc0[b]) for a in el for b in cands if b not in el]), "winners-not-top-m")
    if ok and tb is None and rule in ("STV", "SequentialRCV", "IRV") and not opts.get("simultaneous", True):
        # one-by-one: an elect step must not have silently resolved a tied top group
        st = e.election_states
        for r in range(1, len(st)):
            if st[r].elected != (frozenset(),) and st[r].eliminated == (frozenset(),) and len(C.flat(st[r].elected)) == 1:
                w = C.flat(st[r].elected)[0]
                prev = st[r - 1].scores
                if w in prev and not st[r].tiebreaks:
                    ctx.require(AND(*[gt(prev[w], prev[x]) for x in prev if x != w]) if len(prev) > 1 else True,
                                "silent-tiebreak-in-elect-step", f"round {r} elected {w}")
    return {"kind": "result", "states": C.states_json(e)}


# ---------------------------------------------------------------------------
SCORE_RULES = ("Rating", "Approval", "Limited", "Cumulative", "BlocPlurality")


def build_score_profile(ctx, P, constrain=True):
    """nb score ballots over cands with symbolic scores >= 0 and weights > 0.
    Returns (profile, rows) with rows = [(weight, {cand: score})] (all cands, zeros included)."""
    from votekit.ballot import Ballot
    from votekit.pref_profile import PreferenceProfile
    cands, nb, rule, m = P["cands"], P["nb"], P["rule"], P["m"]
    L, k = P.get("L"), P.get("k")
    rows = []
    ballots = []
    for b in range(nb):
        w = ctx.real(f"w{b}", lo=0, lo_strict=True)
        sc = {c: ctx.real(f"s{b}{c}", lo=0, snap=True) for c in cands}
        if constrain:
            lim, bud = limits_of(rule, m, L, k)
            for c in cands:
                ctx.assume(le(sc[c], lim))
            if bud is not None:
                ctx.assume(le(add(*sc.values()), bud))
        ctx.assume(gt(add(*sc.values()), 0))
        rows.append((w, sc))
        ballots.append(Ballot(weight=w, scores=dict(sc)))
    return PreferenceProfile(ballots=tuple(ballots), candidates=tuple(cands)), rows


def limits_of(rule, m, L, k):
    if rule == "Rating":
        return L, None
    if rule == "Approval":
        return 1, None
    if rule == "Limited":
        return k, k
    if rule == "Cumulative":
        return m, m
    if rule == "BlocPlurality":
        return 1, (k if k else m)
    if rule == "GeneralRating":
        return L, k
    raise ValueError(rule)


def construct_score(rule, profile, m, L, k, tb):
    from votekit import elections as E
    if rule == "Rating":
        return E.Rating(profile, m=m, L=L, tiebreak=tb)
    if rule == "Approval":
        return E.Approval(profile, m=m, tiebreak=tb)
    if rule == "Limited":
        return E.Limited(profile, m=m, k=k, tiebreak=tb)
    if rule == "Cumulative":
        return E.Cumulative(profile, m=m, tiebreak=tb)
    if rule == "BlocPlurality":
        return E.BlocPlurality(profile, m=m, k=k, tiebreak=tb)
    if rule == "GeneralRating":
        return E.GeneralRating(profile, m=m, L=L, k=k, tiebreak=tb)
    raise ValueError(rule)


def def_score_totals(rows, cands):
    return {c: add(*[core.mul(w, sc[c]) for w, sc in rows]) for c in cands}


@harness("c01.score_election", extra=EXTRA, path_alarm=40.0)
def score_election(ctx):
    P = ctx.params
    rule, m, cands, tb = P["rule"], P["m"], P["cands"], P.get("tiebreak")
    profile, rows = build_score_profile(ctx, P)
    tot = def_score_totals(rows, cands)
    try:
        e = construct_score(rule, profile, m, P.get("L"), P.get("k"), tb)
    except PathBudget:
        ctx.fail("nontermination", rule)
        return {"kind": "nonterm"}
    except ValueError as exc:
        where = where_raised(exc)
        if tb is not None or not where.startswith("elect_cands_from_set_ranking"):
            ctx.fail(f"exc:ValueError@{where}", f"tiebreak={tb}: {exc}"[:200])
            return {"kind": "exc", "type": "ValueError"}
        ctx.require(C.straddle_tie(tot, cands, m), "valueerror-iff-boundary-tie",
                    "ValueError although no tie straddles seat m by definition totals")
        return {"kind": "tie-valueerror"}
    except Exception as exc:
        ctx.fail(f"exc:{type(exc).__name__}@{where_raised(exc)}", str(exc)[:200])
        return {"kind": "exc", "type": type(exc).__name__}
    ok = check_outcome(ctx, e, rule, m, {}, cands, None)
    if ok:
        el = C.flat(e.get_elected())
        ctx.require(AND(*[ge(tot[a], tot[b]) for a in el for b in cands if b not in el]), "winners-not-top-m")
        if tb is None:
            ctx.require(NOT(C.straddle_tie(tot, cands, m)), "result-despite-boundary-tie")
    return {"kind": "result", "states": C.states_json(e)}


# ---------------------------------------------------------------------------
def _t(rule, m, opts, fam, cands, nmax=None, W=None, name=None, **kw):
    t = {"harness": "c01.election",
         "params": {"rule": rule, "m": m, "opts": opts, "family": fam, "cands": cands, "nmax": nmax, "W": W,
                    "strict": True},
         "sig_keys": ["rule", "opts", "m"],
         "name": name or f"{rule} m={m} {opts} support={[C.shape_str(s) for s in fam]}"}
    t.update(kw)
    return t


def _ts(rule, m, tb, cands, nb, L=None, k=None, **kw):
    t = {"harness": "c01.score_election",
         "params": {"rule": rule, "m": m, "tiebreak": tb, "cands": cands, "nb": nb, "L": L, "k": k},
         "sig_keys": ["rule", "m", "tiebreak"],
         "name": f"{rule} m={m} tb={tb} nb={nb} L={L} k={k}"}
    t.update(kw)
    return t


def supports_of(fams, sizes=None):
    """all non-empty sub-supports of the given families, deduplicated"""
    seen = {}
    for fam in fams:
        for k in range(1, len(fam) + 1):
            # default (thorough tiers): all supports of size <= 3 plus the full family; larger sub-supports of the
            # six- and seven-shape families would take days (paths grow about threefold per added shape)
            if (sizes and k not in sizes) or (not sizes and k > 3 and (k != len(fam) or k > 5)):
                continue
            for sub in itertools.combinations(fam, k):
                key = tuple(sorted(C.shape_str(s) for s in sub))
                seen.setdefault(key, list(sub))
    return list(seen.values())


def tasks(tier, seed):
    out = []
    q = tier == "quick"
    fams3 = F.base3(q)
    nmax = 6 if q else 9
    stride = 6 if q else 12
    stv_opts = F.stv_option_slice(q)
    for i, o in enumerate(stv_opts):
        fams = [fams3[i % len(fams3)]] if q else [fams3[(i + j) % len(fams3)] for j in range(2)]
        W = 2 if o.get("transfer") == "random" else None
        for sup in supports_of(fams, sizes=(1, 2, 3, len(fams[0])) if q else None):
            for m in ((1, 2, 3) if (not q or o.get("simultaneous") or i % 2 == 0) else (1, 2)):
                out.append(_t("STV", m, o, sup, C.K3, nmax=nmax, W=W, weight=len(sup), xval_stride=stride,
                              split=2 if len(sup) >= 4 else 0))
    for i, o in enumerate(F.seq_option_slice(q)):
        fams = [fams3[(i + 3) % len(fams3)]] if q else [fams3[(i + j) % len(fams3)] for j in range(2)]
        for sup in supports_of(fams, sizes=(1, 2, 3, len(fams[0])) if q else None):
            for m in (1, 2):
                out.append(_t("SequentialRCV", m, o, sup, C.K3, nmax=nmax, weight=len(sup), xval_stride=stride,
                              split=2 if len(sup) >= 4 else 0))
    for i, tb in enumerate((None, "random")):
        fams = [fams3[(i + 1) % len(fams3)]] if q else [fams3[(i + j) % len(fams3)] for j in range(3)]
        for sup in supports_of(fams, sizes=(1, 2, 3, len(fams[0])) if q else None):
            out.append(_t("IRV", 1, {"quota": "droop", "tiebreak": tb}, sup, C.K3, nmax=nmax, weight=len(sup), xval_stride=stride))
    # the same rules over candidate names that contain one another (W1 / W10 / W)
    nfam = C.rename_family(fams3[0], C.NESTED3)
    ncands = C.rename_cands(C.K3, C.NESTED3)
    for o in (stv_opts[0], stv_opts[1]):
        for sup in supports_of([nfam], sizes=(2, 3) if q else None):
            for m in (1, 2):
                out.append(_t("STV", m, o, sup, ncands, nmax=nmax, weight=len(sup), xval_stride=stride))
    for sup in supports_of([nfam], sizes=(2, 3)):
        out.append(_t("IRV", 1, {"quota": "droop", "tiebreak": "random"}, sup, ncands, nmax=nmax, weight=len(sup), xval_stride=stride))
        out.append(_t("Plurality", 1, {"tiebreak": "random"}, sup, ncands, weight=len(sup), xval_stride=stride))
        out.append(_t("TopTwo", 1, {"tiebreak": None}, sup, ncands, weight=len(sup), xval_stride=stride))
        out.append(_t("Alaska", 1, {"m_1": 2, "quota": "droop", "simultaneous": True, "transfer": "fractional", "tiebreak": None}, sup, ncands, nmax=nmax, weight=2 * len(sup), xval_stride=stride))
        out.append(_t("RandomDictator", 2, {}, sup, ncands, weight=len(sup), xval_stride=stride))
    if not q:
        # four candidates (m up to 4): over-election / default-election corners need them
        for o in (stv_opts[0], stv_opts[1], stv_opts[4]):
            W = 2 if o.get("transfer") == "random" else None
            for fam in F.base4(False):
                for sup in supports_of([fam], sizes=(2, 3)):
                    for m in (2, 3):  # m = 4 over four candidates: z3 answers unknown on a few branch-feasibility queries
                        out.append(_t("STV", m, o, sup, C.K4, nmax=8, W=W, weight=4 * len(sup), xval_stride=stride, split=3 if len(sup) >= 3 else 0,
                                      path_alarm=240.0))  # four-candidate STV paths need up to a minute of nlsat on a busy machine
        for fam in F.base4(False)[:2]:
            for sup in supports_of([fam], sizes=(3, 4)):
                for m in (1, 2, 3):
                    out.append(_t("Plurality", m, {"tiebreak": "borda"}, sup, C.K4, weight=len(sup), xval_stride=stride))
                    out.append(_t("CondoBorda", m, {}, sup, C.K4, weight=len(sup), xval_stride=stride))
                out.append(_t("Alaska", 2, {"m_1": 3, "quota": "droop", "simultaneous": True, "transfer": "fractional", "tiebreak": None}, sup, C.K4, nmax=8, weight=4 * len(sup), xval_stride=stride, split=3,
                              path_alarm=240.0))
    # single-round positional rules (tied positions allowed)
    tied = F.tied3(q)
    for fam in tied:
        for sup in supports_of([fam], sizes=None if not q else (len(fam), 2)):
            for m in (1, 2, 3):
                for tb in (None, "random", "borda", "first_place"):
                    out.append(_t("Plurality", m, {"tiebreak": tb}, sup, C.K3, weight=len(sup), xval_stride=stride))
                for tb in (None, "first_place"):
                    out.append(_t("Borda", m, {"tiebreak": tb}, sup, C.K3, weight=len(sup), xval_stride=stride))
            out.append(_t("SNTV", 2, {"tiebreak": None}, sup, C.K3, weight=len(sup), xval_stride=stride))
            out.append(_t("Borda", 2, {"tiebreak": "random", "score_vector": [3, 1]}, sup, C.K3, weight=len(sup), xval_stride=stride))
            for m in (1, 2):
                out.append(_t("RandomDictator", m, {}, sup, C.K3, weight=len(sup), xval_stride=stride))
                out.append(_t("BoostedRandomDictator", m, {}, sup, C.K3, weight=len(sup), xval_stride=0))
    # every ballot exhausted before the seats are filled (F13 / F13-boosted)
    out.append(_t("RandomDictator", 2, {}, F.fam("C"), C.K3, weight=1))
    out.append(_t("BoostedRandomDictator", 2, {}, F.fam("C"), C.K3, weight=1, xval_stride=0))
    for m in (1, 2, 3):  # the all-seats corner on a plain family
        out.append(_t("RandomDictator", m, {}, fams3[4], C.K3, weight=3))
        out.append(_t("BoostedRandomDictator", m, {}, fams3[4], C.K3, weight=3, xval_stride=0))
    # composite / pairwise rules on untied families
    fsel = fams3[:3] if q else fams3
    for fam in fsel:
        for sup in supports_of([fam], sizes=None if not q else (len(fam), len(fam) - 1, 1)):
            for tb in (None, "random"):
                out.append(_t("TopTwo", 1, {"tiebreak": tb}, sup, C.K3, weight=len(sup), xval_stride=stride))
            for (m1, m2) in ((2, 1), (3, 2), (2, 2), (3, 1)):
                o = {"m_1": m1, "quota": "droop", "simultaneous": True, "transfer": "fractional", "tiebreak": None}
                out.append(_t("Alaska", m2, o, sup, C.K3, nmax=nmax, weight=2 * len(sup), xval_stride=stride))
            out.append(_t("Alaska", 1, {"m_1": 2, "quota": "droop", "simultaneous": False, "transfer": "fractional",
                                         "tiebreak": "random"}, sup, C.K3, nmax=nmax, weight=2 * len(sup), xval_stride=stride))
            out.append(_t("DominatingSets", 1, {}, sup, C.K3, weight=len(sup), xval_stride=stride))
            for m in (1, 2, 3):
                out.append(_t("CondoBorda", m, {}, sup, C.K3, weight=len(sup), xval_stride=stride))
    # PluralityVeto: integer weights, bounded total (the rule loops over unit ballots)
    pv = F.fam("A>B>C", "B>C>A", "C>A>B") if q else None
    for fam in ([pv] if q else fams3[:4]):
        for sup in supports_of([fam], sizes=(1, 2, 3)):
            for m in (1, 2):
                out.append(_t("PluralityVeto", m, {"tiebreak": None}, sup, C.K3, nmax=3 if q else 4, W=2,
                              weight=3 * len(sup), xval_stride=stride))
    # score rules
    for rule, L, k in (("Rating", 2, None), ("Approval", None, None), ("Limited", None, 2), ("Cumulative", None, None),
                       ("BlocPlurality", None, None)):
        for m in ((2,) if q else (1, 2, 3)):
            for tb in (None, "random"):
                if rule == "Limited" and k > m:
                    continue
                out.append(_ts(rule, m, tb, C.K3, 2, L=L, k=k, weight=6, xval_stride=stride, split=4))
    if not q:
        # the thorough tier runs for half an hour on a fully loaded machine: a generous path alarm everywhere except
        # for the one rule whose known defect (F7) is a genuine spin
        for t_ in out:
            if t_.get("params", {}).get("rule") != "PluralityVeto":
                t_.setdefault("path_alarm", 150.0)
    return out


META = {
    "explanation": "symbolic execution of the real election constructors over shape families with symbolic rational weights; z3 decides every branch and every assertion on every path",
    "assumptions": ["A-LD", "A-RND", "A-FMT", "A-PD"],
}
