"""C06 -- pairwise comparison, dominating tiers and Condorcet consistency."""
from __future__ import annotations

import itertools
from fractions import Fraction as RealFraction

from sx import core
from sx.core import eq, ne, le, lt, ge, gt, AND, OR, NOT, add, sub, mul, div, num
from sx.engine import harness
from . import common as C, families as F, c01
from .c01 import supports_of, where_raised
from .c12 import pair_margins


def decide_signs(ctx, mu, cands):
    """sign of every margin on this path (forks if the path condition leaves it open)"""
    sg = {}
    for a, b in itertools.combinations(cands, 2):
        if ctx.truth(gt(mu[(a, b)], 0)):
            s = 1
        elif ctx.truth(lt(mu[(a, b)], 0)):
            s = -1
        else:
            s = 0
        sg[(a, b)] = s
        sg[(b, a)] = -s
    return sg


def spec_tiers(sg, cands):
    """the unique finest ordered partition in which every member of a tier beats every member of
    every lower tier: repeatedly split off the smallest dominating set (Smith set) of what is left"""
    rest = list(cands)
    tiers = []
    while rest:
        found = None
        for k in range(1, len(rest) + 1):
            for D in itertools.combinations(rest, k):
                out = [c for c in rest if c not in D]
                if all(sg[(d, o)] > 0 for d in D for o in out):
                    found = set(D)
                    break
            if found:
                break
        tiers.append(found)
        rest = [c for c in rest if c not in found]
    return tiers


@harness("c06.graph", extra=c01.EXTRA)
def graph(ctx):
    from votekit.graphs import PairwiseComparisonGraph
    P = ctx.params
    cands, what = P["cands"], P.get("what", "graph")
    profile, present = C.family_profile(ctx, P["family"], cands, strict=True, cand_order=P.get("cand_order"))
    mu = pair_margins(present, cands)
    if ctx.canary == "unlisted-pairs-count-as-wins":
        mu = {(a, b): add(mu[(a, b)], *[w for s, w in present if a not in [c for p in s for c in p] and b not in [c for p in s for c in p]])
              for (a, b) in mu}
    try:
        if what == "graph":
            g = PairwiseComparisonGraph(profile)
            pd = dict(g.pairwise_dict)
            tiers = [set(t) for t in g.dominating_tiers()]
            hcw = g.has_condorcet_winner()
            try:
                cw = g.get_condorcet_winner()
            except ValueError:
                cw = None
        elif what == "DominatingSets":
            e = c01.construct("DominatingSets", profile, 1, {})
        else:
            e = c01.construct("CondoBorda", profile, P["m"], {})
    except Exception as exc:
        ctx.fail(f"c06:raises:{type(exc).__name__}@{where_raised(exc)}", str(exc)[:200])
        return {"kind": "exc"}
    sg = decide_signs(ctx, mu, cands)
    want_tiers = spec_tiers(sg, cands)
    if what == "graph":
        if sorted(g.candidates) != sorted(cands):
            ctx.fail("c06:graph-candidates", f"{g.candidates}")
            return {"kind": "bad"}
        for a, b in itertools.combinations(cands, 2):
            s = sg[(a, b)]
            if s == 0:
                if (a, b) not in pd or (b, a) not in pd:
                    ctx.fail("c06:tie-edges-missing", f"{a},{b}: keys {[(k) for k in pd if set(k) == {a, b}]}")
                    continue
                ctx.require(AND(eq(pd[(a, b)], 0), eq(pd[(b, a)], 0)), "c06:tie-margin-nonzero", f"{a},{b}")
            else:
                w, l = (a, b) if s > 0 else (b, a)
                if (w, l) not in pd or (l, w) in pd:
                    ctx.fail("c06:edge-direction", f"{w} beats {l} but keys {[(k) for k in pd if set(k) == {a, b}]}")
                    continue
                ctx.require(eq(pd[(w, l)], mu[(w, l)]), "c06:margin", f"margin {w}>{l}: {core.show(pd[(w, l)])} vs definition {core.show(mu[(w, l)])}")
        if [set(t) for t in tiers] != want_tiers:
            ctx.fail("c06:dominating-tiers", f"implementation {[sorted(t) for t in tiers]} vs definition {[sorted(t) for t in want_tiers]} (signs {sg})")
        has = len(want_tiers[0]) == 1
        if hcw != has:
            ctx.fail("c06:has-condorcet-winner", f"{hcw} vs {has}")
        if (cw is None) != (not has) or (has and cw != list(want_tiers[0])[0]):
            ctx.fail("c06:get-condorcet-winner", f"{cw} vs tiers {want_tiers}")
        ctx.require(True, "c06:graph-checked")
        return {"kind": "ok", "tiers": [sorted(t) for t in tiers]}
    el = [set(s) for s in e.get_elected()]
    rem = [set(s) for s in e.get_remaining() if len(s) > 0]
    if what == "DominatingSets":
        if el != [want_tiers[0]] or rem != want_tiers[1:]:
            ctx.fail("c06:dominating-sets-outcome", f"elected {el} remaining {rem} vs tiers {want_tiers}")
        ctx.require(True, "c06:ds-checked")
        return {"kind": "ok", "elected": [sorted(s) for s in el]}
    m = P["m"]
    borda = C.def_borda(present, cands)
    elc = [c for s in el for c in s]
    if len(elc) != m:
        ctx.fail("c06:condoborda-count", f"{elc}")
        return {"kind": "bad"}
    cnt = 0
    whole, straddle = [], None
    for t in want_tiers:
        if cnt + len(t) <= m:
            whole.append(t)
            cnt += len(t)
        else:
            if cnt < m:
                straddle = t
            break
    k = len(whole)
    if el[:k] != whole:
        ctx.fail("c06:condoborda-whole-tiers", f"elected {el} vs tiers {want_tiers}")
        return {"kind": "bad"}
    chosen = [c for s in el[k:] for c in s]
    if straddle is not None:
        if not set(chosen) <= straddle or len(chosen) != m - cnt:
            ctx.fail("c06:condoborda-straddling-tier", f"chosen {chosen} from tier {straddle}")
            return {"kind": "bad"}
        cond = AND(*[ge(borda[a], borda[b]) for a in chosen for b in straddle if b not in chosen])
        if ctx.canary == "lowest-borda-first":
            cond = AND(*[le(borda[a], borda[b]) for a in chosen for b in straddle if b not in chosen])
        ctx.require(cond, "c06:condoborda-by-borda", f"chosen {chosen} within tier {sorted(straddle)} not by higher Borda score")
        ctx.require(AND(*[ge(borda[a], borda[b]) for a, b in zip(chosen, chosen[1:])]), "c06:condoborda-order")
        for call in ctx.rlog:
            if call["fn"] == "sample":
                pop = sorted(call["population"])
                ctx.require(AND(*[eq(borda[pop[0]], borda[x]) for x in pop[1:]]), "c06:random-fallback-not-tied", f"{pop}")
    elif chosen:
        ctx.fail("c06:condoborda-extra-winners", f"{chosen}")
    want_rem = ([straddle - set(chosen)] if straddle else []) + want_tiers[k + (1 if straddle else 0):]
    if set(c for s in rem for c in s) != set(c for s in want_rem for c in s):
        ctx.fail("c06:condoborda-remaining", f"{rem} vs {want_rem}")
    ctx.require(True, "c06:cb-checked")
    return {"kind": "ok", "elected": [sorted(s) for s in el]}


def tasks(tier, seed):
    q = tier == "quick"
    out = []
    def t(fam, cands, what, m=None, **kw):
        d = {"harness": "c06.graph", "params": {"family": fam, "cands": cands, "what": what, "m": m},
             "sig_keys": ["what", "m"], "name": f"{what} m={m} n={len(cands)} {[C.shape_str(s) for s in fam]}"}
        d.update(kw)
        return d
    full3 = C.untied(C.K3)
    fams3 = [full3[3:9], full3[9:], F.fam("A>B", "B>C", "C>A", "A"), F.fam("A", "B>C", "C"), F.fam("A>B", "B>A")]
    if not q:
        fams3.append(full3)
    for fam in fams3:
        sups = supports_of([fam], sizes=(len(fam),) if len(fam) > 5 else ((1, 2, len(fam)) if q else None))
        for sup in sups:
            out.append(t(sup, C.K3, "graph", weight=len(sup), xval_stride=2))
            out.append(t(sup, C.K3, "DominatingSets", weight=len(sup), xval_stride=2))
            for m in (1, 2, 3):
                out.append(t(sup, C.K3, "CondoBorda", m, weight=len(sup), xval_stride=2))
    fams4 = [F.fam("A>B>C>D", "B>C>D>A", "C>D>A>B", "D>A>B>C", "A>C", "B>D"), F.fam("A>B", "B>A>C", "C>D", "D>C>A")]
    if not q:
        fams4 += F.base4(False)
    for fam in fams4:
        for sup in supports_of([fam], sizes=(len(fam),) if q else (2, 3, len(fam))):
            out.append(t(sup, C.K4, "graph", weight=3 * len(sup), xval_stride=3))
            out.append(t(sup, C.K4, "DominatingSets", weight=3 * len(sup), xval_stride=3))
            for m in ((2,) if q else (1, 2, 3, 4)):
                out.append(t(sup, C.K4, "CondoBorda", m, weight=3 * len(sup), xval_stride=3, split=6 if len(sup) >= 5 else 0))
    if not q:
        K5 = list("ABCDE")
        fam5 = F.fam("A>B>C>D>E", "B>C>D>E>A", "C>D>E>A>B", "D>E>A>B>C", "E>A>B>C>D", "A>C>E")
        out.append(t(fam5, K5, "graph", weight=40, xval_stride=5))
        out.append(t(fam5, K5, "CondoBorda", 2, weight=40, xval_stride=5))
    out.append(t(F.fam("A>B", "C"), C.K3, "graph", canary="unlisted-pairs-count-as-wins", stop_on_violation=True,
                 name="canary:unlisted-pairs-count-as-wins", xval_stride=0))
    out.append(t(F.fam("A>B>C", "B>C>A", "C>A>B"), C.K3, "CondoBorda", 1, canary="lowest-borda-first", stop_on_violation=True,
                 name="canary:lowest-borda-first", xval_stride=0))
    return out


META = {
    "explanation": "PairwiseComparisonGraph, DominatingSets and CondoBorda executed on proxies; every margin compared by z3 with its definition; tiers compared with the unique finest dominating partition computed from the decided margin signs (minimality included); CondoBorda's choice inside the straddling tier checked against definition Borda scores",
    "assumptions": ["A-LD", "A-RND", "A-FMT", "A-PD", "A-NX (networkx runs concretely on edges whose existence was decided by forks)"],
}
