"""Shared harness vocabulary: shapes, profile builders, definition terms (oracles)."""
from __future__ import annotations

import itertools
from fractions import Fraction as RealFraction

from sx import core
from sx.core import eq, ne, le, lt, ge, gt, AND, OR, NOT, IMPL, add, mul, sub, div, num, count_true

K3 = ["A", "B", "C"]
K4 = ["A", "B", "C", "D"]


def R(s):
    """'A>B>C' -> shape [[A],[B],[C]] ; 'AB>C' -> [[A,B],[C]] (tied first position)"""
    return [list(p) for p in s.split(">")]


def shape_str(shape):
    return ">".join("".join(p) for p in shape)


def untied(n_or_cands, maxlen=None):
    cands = list(n_or_cands)
    out = []
    for L in range(1, (maxlen or len(cands)) + 1):
        for p in itertools.permutations(cands, L):
            out.append([[c] for c in p])
    return out


def to_ranking(shape):
    return tuple(frozenset(p) for p in shape)


def mk_ballot(shape, weight, scores=None):
    from votekit.ballot import Ballot
    kw = {}
    if shape:
        kw["ranking"] = to_ranking(shape)
    if scores:
        kw["scores"] = scores
    return Ballot(weight=weight, **kw)


def family_profile(ctx, family, cands, nmax=None, prefix="w", integer_w=None, at_least_one=True,
                   cand_order=None, strict=False):
    """Build a PreferenceProfile from a shape family with one symbolic weight per shape.
    A ballot is included iff its weight is > 0 (fork).  Returns (profile, present) with
    present = [(shape, weight)] of included ballots."""
    from votekit.pref_profile import PreferenceProfile
    ws = []
    for i, s in enumerate(family):
        w = ctx.real(f"{prefix}{i}", lo=0, lo_strict=strict)
        if integer_w is not None:
            ctx.assume(OR(*[eq(w, k) for k in range(integer_w + 1)]))
        ws.append(w)
    tot = add(*ws)
    if nmax is not None:
        ctx.assume(le(tot, nmax))
    if at_least_one:
        ctx.assume(gt(tot, 0))
    present = []
    for s, w in zip(family, ws):
        if ctx.truth(gt(w, 0)):
            present.append((s, w))
    ballots = tuple(mk_ballot(s, w) for s, w in present)
    profile = PreferenceProfile(ballots=ballots, candidates=tuple(cand_order or cands))
    return profile, present


# ---------------------------------------------------------------------------
# definition terms over (shape, weight) lists -- written from the property statements
# ---------------------------------------------------------------------------
def total_weight(present):
    return add(*[w for _, w in present]) if present else RealFraction(0)


def def_positional(present, cands, vector):
    """score_c = sum_b w_b * (average of the vector entries spanned by c's position);
    unlisted candidates form one last position; missing entries are 0."""
    vec = list(vector) + [0] * max(0, len(cands) - len(vector))
    sc = {c: RealFraction(0) for c in cands}
    for shape, w in present:
        listed = [c for p in shape for c in p]
        pos = [list(p) for p in shape]
        rest = [c for c in cands if c not in listed]
        if rest:
            pos.append(rest)
        i = 0
        for p in pos:
            span = vec[i:i + len(p)]
            avg = div(add(*span), len(p)) if span else RealFraction(0)
            for c in p:
                if c in sc:
                    sc[c] = add(sc[c], mul(w, avg))
            i += len(p)
    return sc


def def_fpv(present, cands):
    return def_positional(present, cands, [1])


def def_borda(present, cands):
    n = len(cands)
    return def_positional(present, cands, list(range(n, 0, -1)))


def def_mentions(present, cands):
    sc = {c: RealFraction(0) for c in cands}
    for shape, w in present:
        for p in shape:
            for c in p:
                sc[c] = add(sc[c], w)
    return sc


def ballots_as_present(profile):
    """(shape, weight) view of a profile object's ballots (weights may be proxies)"""
    out = []
    for b in profile.ballots:
        shape = [sorted(p) for p in b.ranking] if b.ranking else []
        out.append((shape, b.weight))
    return out


def ballots_as_present_tuple(ballots):
    return [([sorted(p) for p in b.ranking] if b.ranking else [], b.weight) for b in ballots]


def img(shape, removed):
    """spec image of a ranking when candidates are struck: order and grouping preserved"""
    out = []
    for p in shape:
        q = [c for c in p if c not in removed]
        if q:
            out.append(q)
    return out


def key_of(shape):
    return tuple(tuple(sorted(p)) for p in shape)


def weight_by_ranking(present):
    d = {}
    for s, w in present:
        k = key_of(s)
        d[k] = add(d[k], w) if k in d else num(w)
    return d


def flat(groups):
    return [c for s in groups for c in s]


def groups_json(groups):
    return [sorted(s) for s in groups if len(s) > 0]


def states_json(e):
    return [{"el": groups_json(s.elected), "out": groups_json(s.eliminated), "rem": groups_json(s.remaining),
             "tb": sorted([sorted(k), [sorted(x) for x in v]] for k, v in s.tiebreaks.items())}
            for s in e.election_states]


def straddle_tie(scores, cands, m):
    """exists a candidate whose score-class straddles seat m:  #{x: s_x > s_c} < m < #{x: s_x >= s_c}"""
    conds = []
    for c in cands:
        g = count_true([gt(scores[x], scores[c]) for x in cands])
        geq = count_true([ge(scores[x], scores[c]) for x in cands])
        conds.append(AND(lt(g, m), gt(geq, m)))
    return OR(*conds)


NESTED3 = {"A": "W1", "B": "W10", "C": "W"}
NESTED4 = {"A": "W1", "B": "W10", "C": "W", "D": "W100"}


def rename_family(fam, ren):
    """the same shapes over candidate names that contain one another (whole-name matching must not be
    replaced by substring matching anywhere)"""
    return [[[ren.get(c, c) for c in p] for p in shape] for shape in fam]


def rename_cands(cands, ren):
    return [ren.get(c, c) for c in cands]
