"""C12 -- ballot-editing utilities preserve order and lose no votes except exhausted ones."""
from __future__ import annotations

import itertools
import math
from fractions import Fraction as RealFraction

from sx import core
from sx.core import eq, ne, le, lt, ge, gt, AND, OR, NOT, add, sub, mul, div, num
from sx.engine import harness
from . import common as C, families as F
from .c01 import supports_of, where_raised
from .stv import maps_equal


def cval(v):
    """canonical text of a concrete number, whether it is a Fraction or a constant proxy"""
    if isinstance(v, core.SF):
        import z3
        e = z3.simplify(v.e)
        if z3.is_rational_value(e):
            return str(e.as_fraction())
        return str(e)
    return str(RealFraction(v))


def content_key(b):
    rk = tuple(tuple(sorted(p)) for p in b.ranking) if b.ranking else ()
    sc = tuple(sorted((c, cval(v)) for c, v in b.scores.items())) if b.scores else ()
    return (rk, sc)


def content_map(ballots):
    d = {}
    for b in ballots:
        k = content_key(b)
        d[k] = add(d[k], b.weight) if k in d else num(b.weight)
    return d


def build(ctx, specs, with_ids=False):
    """specs: [(shape, scores or None)] -> ballots with symbolic positive weights"""
    from votekit.ballot import Ballot
    out, rows = [], []
    for i, (shape, sc) in enumerate(specs):
        w = ctx.real(f"w{i}", lo=0, lo_strict=True)
        kw = {}
        if shape:
            kw["ranking"] = C.to_ranking(shape)
        if sc:
            kw["scores"] = dict(sc)
        if with_ids and i % 2 == 0:
            kw["id"] = f"b{i}"
            kw["voter_set"] = {f"v{i}"}
        out.append(Ballot(weight=w, **kw))
        rows.append((shape, sc, w))
    return out, rows


@harness("c12.remove_cand")
def remove_cand(ctx):
    import votekit.utils as U
    from votekit.pref_profile import PreferenceProfile
    from votekit.ballot import Ballot
    P = ctx.params
    cands, removed, kind = P["cands"], P["removed"], P["kind"]
    specs = P["specs"]
    if P.get("rename"):
        # names that contain one another: a removal must match whole names only
        ren = P["rename"]
        rn = lambda c: ren.get(c, c)
        cands = [rn(c) for c in cands]
        removed = [rn(c) for c in removed]
        specs = [([[rn(c) for c in p] for p in shape], ({rn(c): v for c, v in sc.items()} if sc else sc)) for shape, sc in specs]
    ballots, rows = build(ctx, specs)
    condense, leave = P.get("condense", True), P.get("leave_zero", False)
    if kind == "profile":
        arg = PreferenceProfile(ballots=tuple(ballots), candidates=tuple(cands))
    elif kind == "tuple":
        arg = tuple(ballots)
    else:
        arg = ballots[0]
        rows = rows[:1]
    rem_arg = removed[0] if (len(removed) == 1 and P.get("as_str")) else list(removed)
    try:
        res = U.remove_cand(rem_arg, arg, condense=condense, leave_zero_weight_ballots=leave)
    except Exception as exc:
        ctx.fail(f"c12:remove_cand-raises:{type(exc).__name__}[{kind}]", f"removing {removed}: {exc}"[:200])
        return {"kind": "exc"}
    if kind == "profile":
        if not isinstance(res, PreferenceProfile):
            ctx.fail("c12:return-type")
            return {"kind": "bad"}
        if sorted(res.candidates) != sorted(c for c in cands if c not in removed):
            ctx.fail("c12:candidates-after-removal", f"{res.candidates}")
        outb = list(res.ballots)
    elif kind == "tuple":
        if not isinstance(res, tuple):
            ctx.fail("c12:return-type")
            return {"kind": "bad"}
        outb = list(res)
    else:
        if not isinstance(res, Ballot):
            ctx.fail("c12:return-type")
            return {"kind": "bad"}
        outb = [res]
    expected = {}
    for shape, sc, w in rows:
        nk = C.key_of(C.img(shape, set(removed))) if shape else ()
        ns = tuple(sorted((c, str(RealFraction(v))) for c, v in (sc or {}).items() if c not in removed and v != 0))
        if not nk and not ns:
            continue  # exhausted: contributes nothing
        k = (nk, ns)
        expected[k] = add(expected[k], w) if k in expected else num(w)
    if ctx.canary == "exhausted-weight-kept":
        expected[((), ())] = add(*[w for _, _, w in rows])
    got = {}
    for b in outb:
        k = content_key(b)
        if any(c in removed for p in k[0] for c in p) or any(c in removed for c, _ in k[1]):
            ctx.fail("c12:removed-candidate-still-present", f"{k}")
            return {"kind": "bad"}
        if k == ((), ()):
            ctx.require(eq(b.weight, 0), "c12:empty-ballot-with-weight", "an exhausted ballot kept weight")
            if not leave and kind != "ballot":  # a single exhausted ballot can only come back as the placeholder
                ctx.fail("c12:zero-weight-placeholder-returned", "leave_zero_weight_ballots=False")
            continue
        if k not in expected:
            ctx.fail("c12:output-not-image-of-input", f"{k}")
            return {"kind": "bad"}
        got[k] = add(got[k], b.weight) if k in got else num(b.weight)
    ctx.require(maps_equal(got, expected), "c12:remove_cand-weights", "weight per resulting ballot content != summed weight of inputs mapping to it")
    if condense and kind != "ballot":
        keys = [content_key(b) for b in outb if content_key(b) != ((), ())]
        if len(keys) != len(set(keys)):
            ctx.fail("c12:not-condensed", f"{keys}")
    return {"kind": "ok", "n": len(outb)}


@harness("c12.add_missing")
def add_missing(ctx):
    import votekit.utils as U
    from votekit.pref_profile import PreferenceProfile
    P = ctx.params
    cands = P["cands"]
    ballots, rows = build(ctx, P["specs"], with_ids=P.get("with_ids", False))
    prof = PreferenceProfile(ballots=tuple(ballots), candidates=tuple(cands))
    try:
        res = U.add_missing_cands(prof)
    except Exception as exc:
        ctx.fail(f"c12:add_missing-raises:{type(exc).__name__}", str(exc)[:200])
        return {"kind": "exc"}
    expected = {}
    for shape, sc, w in rows:
        listed = [c for p in shape for c in p]
        rest = sorted(c for c in cands if c not in listed)
        k = C.key_of(shape + ([rest] if rest else []))
        expected[(k, ())] = add(expected[(k, ())], w) if (k, ()) in expected else num(w)
    got = content_map(res.ballots)
    if set(got) - set(expected):
        ctx.fail("c12:add_missing-unexpected-ranking", f"{sorted(set(got) - set(expected))}")
        return {"kind": "bad"}
    ctx.require(maps_equal(got, expected), "c12:add_missing-weights")
    if sorted(res.candidates) != sorted(cands):
        ctx.fail("c12:add_missing-candidates", f"{res.candidates}")
    return {"kind": "ok"}


def linear_extensions(shape):
    outs = [[]]
    for p in shape:
        outs = [o + [[c] for c in perm] for o in outs for perm in itertools.permutations(sorted(p))]
    return outs


def pair_margins(rows, cands):
    mu = {}
    for a, b in itertools.permutations(cands, 2):
        tot = RealFraction(0)
        for shape, w in rows:
            pos = {c: i for i, p in enumerate(shape) for c in p}
            if a in pos and (b not in pos or pos[a] < pos[b]):
                tot = add(tot, w)
            elif b in pos and (a not in pos or pos[b] < pos[a]):
                tot = sub(tot, w)
        mu[(a, b)] = tot
    return mu


@harness("c12.expand")
def expand(ctx):
    import votekit.utils as U
    from votekit.pref_profile import PreferenceProfile
    P = ctx.params
    cands = P["cands"]
    ballots, rows = build(ctx, P["specs"], with_ids=P.get("with_ids", False))
    expected = {}
    for (shape, sc, w), b in zip(rows, ballots):
        try:
            ex = U.expand_tied_ballot(b)
        except Exception as exc:
            ctx.fail(f"c12:expand-raises:{type(exc).__name__}", str(exc)[:200])
            return {"kind": "exc"}
        exts = linear_extensions(shape)
        denom = 1
        for p in shape:
            denom *= math.factorial(len(p))
        if ctx.canary == "weight-over-k":
            denom = max(len(p) for p in shape)
        keys = [content_key(x)[0] for x in ex]
        if sorted(keys) != sorted(C.key_of(e_) for e_ in exts):
            ctx.fail("c12:expand-not-the-linear-extensions", f"{C.shape_str(shape)} -> {keys}")
            return {"kind": "bad"}
        ctx.require(AND(*[eq(x.weight, div(w, denom)) for x in ex]), "c12:expand-weights", f"{C.shape_str(shape)}: each order must carry weight/prod(|tie|!)")
        ctx.require(eq(add(*[x.weight for x in ex]), w), "c12:expand-total", C.shape_str(shape))
        for e_ in exts:
            k = (C.key_of(e_), ())
            expected[k] = add(expected[k], div(w, denom)) if k in expected else div(w, denom)
    prof = PreferenceProfile(ballots=tuple(ballots), candidates=tuple(cands))
    try:
        res = U.resolve_profile_ties(prof)
    except Exception as exc:
        ctx.fail(f"c12:resolve-raises:{type(exc).__name__}", str(exc)[:200])
        return {"kind": "exc"}
    got = content_map(res.ballots)
    if set(got) - set(expected):
        ctx.fail("c12:resolve-unexpected-ranking", f"{sorted(set(got) - set(expected))}")
        return {"kind": "bad"}
    ctx.require(maps_equal(got, expected), "c12:resolve-weights")
    if len(res.ballots) != len(set(content_key(b) for b in res.ballots)):
        ctx.fail("c12:resolve-not-condensed")
    # totals by definition, before vs after
    before = [(shape, w) for shape, sc, w in rows]
    after = [([list(p) for p in k[0]], w) for k, w in got.items()]
    f0, f1 = C.def_fpv(before, cands), C.def_fpv(after, cands)
    b0, b1 = C.def_borda(before, cands), C.def_borda(after, cands)
    m0, m1 = pair_margins(before, cands), pair_margins(after, cands)
    ctx.require(AND(*[eq(f0[c], f1[c]) for c in cands]), "c12:expand-first-place-totals")
    ctx.require(AND(*[eq(b0[c], b1[c]) for c in cands]), "c12:expand-borda-totals")
    ctx.require(AND(*[eq(m0[k], m1[k]) for k in m0]), "c12:expand-pairwise-totals")
    return {"kind": "ok"}


def seq_ranking(seq):
    return tuple(frozenset({c}) if c else frozenset() for c in seq)


@harness("c12.cleaning")
def cleaning(ctx):
    import votekit.cleaning as K
    from votekit.ballot import Ballot
    from votekit.pref_profile import PreferenceProfile
    P = ctx.params
    func, seqs = P["func"], P["seqs"]
    ballots, rows = [], []
    for i, seq in enumerate(seqs):
        w = ctx.real(f"w{i}", lo=0, lo_strict=True)
        kw = {"ranking": seq_ranking(seq)} if seq else {}
        if i % 2:
            kw["voter_set"] = {f"v{i}"}
        ballots.append(Ballot(weight=w, **kw))
        rows.append((seq, w))
    prof = PreferenceProfile(ballots=tuple(ballots), candidates=tuple(P["cands"]))
    non = P.get("non_cands", [])
    try:
        if func == "remove_noncands":
            res = K.remove_noncands(prof, list(non))
        elif func == "deduplicate":
            res = K.deduplicate_profiles(prof)
        elif func == "remove_empty":
            res = K.remove_empty_ballots(prof, keep_candidates=P.get("keep", False))
        else:
            raise ValueError(func)
    except Exception as exc:
        ctx.fail(f"c12:{func}-raises:{type(exc).__name__}", str(exc)[:200])
        return {"kind": "exc"}
    expected = {}
    for seq, w in rows:
        if func == "remove_noncands":
            im = []
            for c in seq:
                if c not in non and c not in im:
                    im.append(c)
        elif func == "deduplicate":
            im = []
            for c in seq:
                if c not in im:
                    im.append(c)
        else:
            im = list(seq)
        if not im:
            continue
        k = tuple((c,) for c in im)
        expected[k] = add(expected[k], w) if k in expected else num(w)
    got = {}
    for b in res.ballots:
        k = tuple(tuple(sorted(p)) for p in b.ranking) if b.ranking else ()
        if func == "remove_noncands" and any(c in non for p in k for c in p):
            ctx.fail("c12:noncandidate-still-present", f"{k}")
            return {"kind": "bad"}
        if k not in expected:
            ctx.fail(f"c12:{func}-output-not-image-of-input", f"{k}")
            return {"kind": "bad"}
        got[k] = add(got[k], b.weight) if k in got else num(b.weight)
    ctx.require(maps_equal(got, expected), f"c12:{func}-weights", "weight per resulting ranking != summed weight of the inputs mapping to it")
    if func == "remove_empty" and P.get("keep") and sorted(res.candidates) != sorted(P["cands"]):
        ctx.fail("c12:remove_empty-candidates")
    return {"kind": "ok"}


def tasks(tier, seed):
    q = tier == "quick"
    out = []
    S = lambda *xs: [(C.R(x) if isinstance(x, str) else (C.R(x[0]) if x[0] else [], x[1])) if isinstance(x, str) else ((C.R(x[0]) if x[0] else []), x[1]) for x in xs]
    def spec(*xs):
        r = []
        for x in xs:
            if isinstance(x, str):
                r.append((C.R(x), None))
            else:
                r.append((C.R(x[0]) if x[0] else [], x[1]))
        return r
    specsets = [
        spec("A>B>C", "A", "AB>C", ("B>A", {"A": 2, "B": 1})),
        spec("A>BC", "C>A", ("", {"A": 1, "C": 3}), "B>C"),
        spec("A>B", "A>B", "B>A>C"),
    ]
    if not q:
        specsets += [spec("ABC", "A>B>C", "C", ("A>C", {"C": 1})), spec("AB>CD", "D>A", "A>D>B", "C")]
    pool = ["A", "B", "C", "Z"]
    rems = [list(r) for k in range(0, 5) for r in itertools.combinations(pool, k)]
    for si, ss in enumerate(specsets):
        cands = C.K4 if any("D" in "".join("".join(p) for p in s) for s, _ in ss) else C.K3
        for rem in rems:
            if q and si > 0 and len(rem) not in (1, 3):
                continue
            for kind in ("profile", "tuple", "ballot"):
                for condense, leave in ((True, False), (False, True), (True, True), (False, False)):
                    if q and (condense, leave) in ((True, True), (False, False)) and si > 0:
                        continue
                    sp = ss if kind != "ballot" else ss
                    variants = [sp] if kind != "ballot" else [[x] for x in sp[:3]]
                    for v in variants:
                        out.append({"harness": "c12.remove_cand",
                                    "params": {"cands": cands, "removed": rem, "kind": kind, "specs": v, "condense": condense,
                                               "leave_zero": leave, "as_str": len(rem) == 1 and condense},
                                    "sig_keys": ["kind"], "name": f"remove_cand {rem} {kind} c={condense} z={leave} {[C.shape_str(s) for s, _ in v]}"})
    tied_sets = [spec("AB>C", "A>BC", "ABC"), spec("A>B", "C>AB", "B"), spec("AB>C", "AB>C", "C>B>A")]
    if not q:
        tied_sets += [spec("ABC>D", "A>BCD"), spec("AB>CD", "D")]
    for ss in tied_sets:
        cands = C.K4 if any("D" in "".join("".join(p) for p in s) for s, _ in ss) else C.K3
        for k in range(1, len(ss) + 1):
            for sub_ in itertools.combinations(ss, k):
                out.append({"harness": "c12.expand", "params": {"cands": cands, "specs": list(sub_), "with_ids": k % 2 == 1},
                            "name": f"expand {[C.shape_str(s) for s, _ in sub_]}"})
                out.append({"harness": "c12.add_missing", "params": {"cands": cands + ["E"], "specs": list(sub_), "with_ids": k % 2 == 0},
                            "name": f"add_missing {[C.shape_str(s) for s, _ in sub_]}"})
    seqsets = [["ABA", "BA", "AB", "CZ", "Z"], ["AAB", "AB", "ZAZB", "B"], ["ABC", "", "ACB", "ABC"]]
    for seqs in seqsets:
        seqs = [list(s) for s in seqs]
        for func, extra in (("remove_noncands", {"non_cands": ["Z"]}), ("remove_noncands", {"non_cands": ["Z", "A"]}),
                            ("remove_noncands", {"non_cands": []}), ("deduplicate", {}),
                            ("remove_empty", {"keep": True}), ("remove_empty", {"keep": False})):
            if func != "remove_empty" and any(len(s) == 0 for s in seqs):
                use = [s for s in seqs if s]
            else:
                use = seqs
            out.append({"harness": "c12.cleaning", "params": {"func": func, "seqs": use, "cands": ["A", "B", "C", "Z"], **extra},
                        "sig_keys": ["func"], "name": f"{func} {extra} {[''.join(s) for s in use]}"})
    NESTED = {"A": "Ann", "B": "Anna", "C": "An", "Z": "Annabel", "D": "Bo"}
    for si, ss in enumerate(specsets[:2]):
        for rem in (["A"], ["B"], ["C"], ["Z"], ["A", "B"]):
            for kind in ("profile", "tuple", "ballot"):
                variants = [ss] if kind != "ballot" else [[x] for x in ss[:3]]
                for v in variants:
                    out.append({"harness": "c12.remove_cand",
                                "params": {"cands": C.K3, "removed": rem, "kind": kind, "specs": v, "condense": True, "leave_zero": False,
                                           "as_str": len(rem) == 1, "rename": NESTED},
                                "sig_keys": ["kind"], "name": f"remove_cand nested-names {rem} {kind} {[C.shape_str(s) for s, _ in v]}"})
    out.append({"harness": "c12.expand", "params": {"cands": C.K3, "specs": spec("ABC"), "with_ids": False}, "canary": "weight-over-k",
                "stop_on_violation": True, "name": "canary:weight-over-k", "xval_stride": 0})
    out.append({"harness": "c12.remove_cand", "params": {"cands": C.K3, "removed": ["A"], "kind": "tuple", "specs": spec("A", "B"), "condense": True, "leave_zero": False},
                "canary": "exhausted-weight-kept", "stop_on_violation": True, "name": "canary:exhausted-weight-kept", "xval_stride": 0})
    return out


META = {
    "explanation": "remove_cand / add_missing_cands / expand_tied_ballot / resolve_profile_ties / cleaning.* executed on ballots with symbolic weights; per resulting content the summed weight is compared with the spec image by z3; removal sets enumerate every subset of the candidates plus an absent name",
    "assumptions": ["A-LD", "A-FMT", "A-PD", "scores on ballots are concrete in this harness (weights symbolic)"],
}
