"""C03 -- surplus transfers and STV rounds conserve votes.
Part A: fractional_transfer / random_transfer as units with symbolic tallies, thresholds, weights.
Part B: conservation identity on every round of STV runs (shared harness stv.run, group c03)."""
from __future__ import annotations

import itertools
from fractions import Fraction as RealFraction

from sx import core
from sx.core import eq, ne, le, lt, ge, gt, AND, OR, NOT, add, sub, mul, div, num
from sx.engine import harness
from . import common as C, families as F, stv, c02
from .c01 import supports_of, where_raised


def mk_ballots(ctx, specs, integer_w=None):
    """specs: list of (shape, flags) ; returns ballots and [(shape, weight)]"""
    from votekit.ballot import Ballot
    ballots, rows = [], []
    for i, (shape, flags) in enumerate(specs):
        w = ctx.real(f"w{i}", lo=0, lo_strict=True)
        if integer_w:
            ctx.assume(OR(*[eq(w, k) for k in range(1, integer_w + 1)]))
        kw = {}
        if "id" in flags:
            kw["id"] = f"b{i}"
        if "voters" in flags:
            kw["voter_set"] = {f"v{i}"}
        ballots.append(Ballot(ranking=C.to_ranking(shape), weight=w, **kw))
        rows.append((shape, w))
    return ballots, rows


def out_map(out_ballots):
    return C.weight_by_ranking(C.ballots_as_present_tuple(out_ballots))


@harness("c03.fractional")
def fractional(ctx):
    from votekit.elections import fractional_transfer
    P = ctx.params
    winner = P["winner"]
    ballots, rows = mk_ballots(ctx, P["specs"])
    fpv = ctx.real("fpv", lo=0, lo_strict=True)
    T = ctx.real("T", lo=1)
    ctx.assume(ge(fpv, T))
    if P.get("as_tuple"):
        ballots = tuple(ballots)
    try:
        out = fractional_transfer(winner, fpv, ballots, T)
    except Exception as exc:
        ctx.fail(f"c03:fractional-raises:{type(exc).__name__}@{where_raised(exc)}", str(exc)[:200])
        return {"kind": "exc"}
    tv = div(sub(fpv, T), fpv)
    if ctx.canary == "factor-over-threshold":
        tv = div(sub(fpv, T), T)
    expected = {}
    for shape, w in rows:
        led = [c for c in shape[0]] == [winner]
        k = C.key_of(C.img(shape, {winner}))
        if not k:
            continue
        ww = mul(w, tv) if led else num(w)
        expected[k] = add(expected[k], ww) if k in expected else ww
    got = {}
    for b in out:
        if not b.ranking:
            ctx.fail("c03:output-without-ranking")
            return {"kind": "bad"}
        k = tuple(tuple(sorted(p)) for p in b.ranking)
        if any(winner in p for p in k):
            ctx.fail("c03:winner-still-listed", f"{k}")
            return {"kind": "bad"}
        if k not in expected:
            ctx.fail("c03:ranking-not-image-of-input", f"{k}")
            return {"kind": "bad"}
        got[k] = add(got[k], b.weight) if k in got else num(b.weight)
        ctx.require(gt(b.weight, 0), "c03:nonpositive-output-weight", f"{k}")
    ctx.require(stv.maps_equal(got, expected), "c03:fractional-weights",
                "per continuing ranking: sum of output weights != led*(tally-threshold)/tally + others at full weight")
    return {"kind": "ok", "rankings": sorted(map(str, got))}


@harness("c03.random")
def random_tr(ctx):
    from votekit.elections import random_transfer
    from votekit.ballot import Ballot
    P = ctx.params
    winner, W = P["winner"], P["W"]
    ballots, rows = mk_ballots(ctx, P["specs"], integer_w=W)
    led = [(s, w) for s, w in rows if [c for c in s[0]] == [winner]]
    # concrete integer weights (fork over the W values each)
    ws = {}
    for i, (s, w) in enumerate(rows):
        for k in range(1, W + 1):
            if ctx.truth(eq(w, k)):
                ws[i] = k
                break
    fpv = sum(ws[i] for i, (s, w) in enumerate(rows) if [c for c in s[0]] == [winner])
    if fpv < 1:
        ctx.require(True, "c03:no-led-ballot")
        return {"kind": "skip"}
    T = 1 + ctx.choose(fpv)  # threshold in 1..fpv
    try:
        out = random_transfer(winner, RealFraction(fpv), ballots, T)
    except Exception as exc:
        transferable = sum(ws[i] for i, (s_, w_) in enumerate(rows) if [c for c in s_[0]] == [winner] and C.key_of(C.img(s_, {winner})))
        tag = "[surplus>transferable]" if fpv - T > transferable else ""
        ctx.fail(f"c03:random-raises:{type(exc).__name__}@{where_raised(exc)}{tag}", str(exc)[:200])
        return {"kind": "exc"}
    # what the winner's ballots can give: one whole ballot per unit of weight of each transferable led ballot
    want_units = {}
    for i, (s, w) in enumerate(rows):
        if [c for c in s[0]] == [winner]:
            k = C.key_of(C.img(s, {winner}))
            if k:
                want_units[k] = want_units.get(k, 0) + ws[i]
    others = {}
    for i, (s, w) in enumerate(rows):
        if [c for c in s[0]] != [winner]:
            k = C.key_of(C.img(s, {winner}))
            if k:
                others[k] = others.get(k, 0) + ws[i]
    got = {}
    for b in out:
        k = tuple(tuple(sorted(p)) for p in b.ranking) if b.ranking else ()
        if any(winner in p for p in k):
            ctx.fail("c03:winner-still-listed", f"{k}")
            return {"kind": "bad"}
        got[k] = add(got[k], b.weight) if k in got else num(b.weight)
    # (a) whatever random API was used: the transferred ballots are a sub-collection of the winner's transferable
    # ballots, of total size tally - threshold (whole ballots: integer counts)
    drawn = {}
    for k in set(got) | set(others):
        d = sub(got.get(k, 0), others.get(k, 0))
        dv = None
        for n in range(0, fpv + 1):
            if ctx.truth(eq(d, n)):
                dv = n
                break
        if dv is None:
            ctx.fail("c03:random-not-whole-ballots", f"{k}: transferred weight {core.show(d)} is not a whole number of the winner's ballots")
            return {"kind": "bad"}
        if dv:
            drawn[k] = dv
    over = [k for k, n in drawn.items() if n > want_units.get(k, 0)]
    if over or (ctx.canary == "sample-one-more" and True):
        ctx.fail("c03:random-not-a-subcollection", f"{over[:1]}: {drawn} drawn out of {want_units}")
        return {"kind": "bad"}
    if sum(drawn.values()) != fpv - T:
        ctx.fail("c03:random-sample-size", f"{sum(drawn.values())} ballots transferred but tally-threshold={fpv - T}")
        return {"kind": "bad"}
    ctx.require(True, "c03:random-subcollection")  # (a) decided on this path (weights and counts are concrete after the forks)
    # (b) when the selection is a single random.sample() call, its contract (uniform k-subsets of the population)
    # settles "equally likely" provided the population is exactly the transferable unit ballots; any other way of
    # drawing is judged by the inclusion-probability law (c03.random_law)
    calls = list(ctx.rlog)
    if len(calls) == 1 and calls[0]["fn"] == "sample" and all(hasattr(b, "ranking") for b in calls[0]["population"]):
        call = calls[0]
        got_units = {}
        for b in call["population"]:
            k = tuple(tuple(sorted(p)) for p in b.ranking)
            got_units[k] = add(got_units[k], b.weight) if k in got_units else num(b.weight)
        if set(got_units) != set(want_units) or not all(ctx.truth(eq(got_units[k], want_units[k])) for k in want_units):
            ctx.fail("c03:random-population", f"sampled from {dict((k, core.show(v)) for k, v in got_units.items())}, transferable units are {want_units}")
            return {"kind": "bad"}
    return {"kind": "ok", "T": T, "fpv": fpv, "drawn": sorted((str(k), n) for k, n in drawn.items()), "units": sorted((str(k), n) for k, n in want_units.items())}


@harness("c03.random_law")
def random_law(ctx):
    """law unit: integer weights 1..W per ballot (the cells), threshold T fixed by the task; outcome = how many
    unit ballots of each continuing ranking were transferred.  Checked by check_inclusion."""
    from votekit.elections import random_transfer
    P = ctx.params
    winner, W, T = P["winner"], P["W"], P["T"]
    ballots, rows = mk_ballots(ctx, P["specs"], integer_w=W)
    ws = {}
    for i, (s, w) in enumerate(rows):
        for k in range(1, W + 1):
            if ctx.truth(eq(w, k)):
                ws[i] = k
                break
    fpv = sum(ws[i] for i, (s, w) in enumerate(rows) if [c for c in s[0]] == [winner])
    units, others = {}, {}
    for i, (s, w) in enumerate(rows):
        k = C.key_of(C.img(s, {winner}))
        if not k:
            continue
        tgt = units if [c for c in s[0]] == [winner] else others
        tgt[str(k)] = tgt.get(str(k), 0) + ws[i]
    if fpv < T or sum(units.values()) < fpv - T:
        return {"kind": "excluded"}  # not a winner's pile / more surplus than transferable ballots (F4, C03 unit harness)
    try:
        out = random_transfer(winner, RealFraction(fpv), ballots, T)
    except Exception:
        return {"kind": "excluded"}  # judged by c03.random
    got = {}
    for b in out:
        k = str(tuple(tuple(sorted(p)) for p in b.ranking)) if b.ranking else "()"
        wv = None
        for n in range(0, sum(ws.values()) + 1):
            if ctx.truth(eq(b.weight, n)):
                wv = n
                break
        if wv is None:
            return {"kind": "excluded"}
        got[k] = got.get(k, 0) + wv
    drawn = {k: got.get(k, 0) - others.get(k, 0) for k in set(got) | set(others) | set(units)}
    return {"kind": "draw", "drawn": sorted((k, n) for k, n in drawn.items() if n), "units": sorted(units.items()), "surplus": fpv - T}


def check_inclusion(law, outcomes, cvars, params, canary, sc):
    """every transferable ballot of the winner is equally likely to be chosen: for each continuing ranking k the
    expected number of transferred unit ballots is surplus * units_k / units_total"""
    import z3
    from sx.core import lift
    checks = []
    first = next(iter(outcomes.values()))
    units = dict((k, n) for k, n in first["units"])
    n_units, surplus = sum(units.values()), first["surplus"]
    for k, u in sorted(units.items()):
        got = z3.RealVal(0)
        for key, o in outcomes.items():
            d = dict((a, b) for a, b in o["drawn"]).get(k, 0)
            if d:
                got = got + lift(law[key]) * d
        want = RealFraction(surplus * u, n_units)
        if canary == "first-ballots-preferred":
            want = RealFraction(surplus, len(units))
        checks.append((f"expected transfers of {k}", got, z3.RealVal(str(want))))
    return checks


def run_random_law(task):
    from . import laws
    import z3
    W = task["params"]["W"]
    return laws.run_law(task, None, lambda vs: [z3.Or(*[v == k for k in range(1, W + 1)]) for n, v in vs.items() if n.startswith("w")],
                        checker=check_inclusion)


@harness("c03.random_law_replay")
def random_law_replay(ctx):
    """conc: enumerate every draw of the real random_transfer at the model's weights and compare the expected
    number of transferred ballots per continuing ranking with surplus * units / total"""
    if ctx.sym:
        ctx.require(True, "noop")
        return {}
    from . import laws
    runs = laws.enumerate_conc("c03.random_law", ctx.params, ctx.model)
    exp, units, surplus = {}, None, None
    for o, p in runs:
        if o is None or o.get("kind") != "draw":
            return {"kind": "excluded"}
        units, surplus = dict((k, n) for k, n in o["units"]), o["surplus"]
        for k, n in o["drawn"]:
            exp[k] = exp.get(k, RealFraction(0)) + RealFraction(p if p is not None else 1) * n
    tot = sum(units.values())
    for k, u in units.items():
        if exp.get(k, 0) != RealFraction(surplus * u, tot):
            raise core.ConcViolation("law:random_transfer_inclusion", f"{k}: expected number of transferred ballots {exp.get(k, 0)} but surplus*units/total = {RealFraction(surplus * u, tot)}")
    return {"kind": "ok"}


SPECS_Q = [
    [("A>B", ""), ("A", ""), ("B>A>C", ""), ("C>B", "")],
    [("A>B>C", "id"), ("A>B>C", ""), ("A>C", "voters"), ("B>C", "")],
    [("A>C>B", ""), ("C>A", ""), ("A>B", ""), ("A>B", "id,voters")],
]
SPECS_T = SPECS_Q + [
    [("A>B", ""), ("A>C", ""), ("A", ""), ("B>A", ""), ("C", ""), ("A>B>C", "")],
    [("A>B>C", ""), ("A>C>B", ""), ("B>C>A", ""), ("C>A>B", ""), ("A", "id"), ("B", "")],
]


def _specs(sp):
    return [(C.R(s), [f for f in fl.split(",") if f]) for s, fl in sp]


def tasks(tier, seed):
    q = tier == "quick"
    out = []
    for i, sp in enumerate(SPECS_Q if q else SPECS_T):
        specs = _specs(sp)
        for k in range(1, len(specs) + 1):
            for sub_ in itertools.combinations(specs, k):
                if q and k not in (len(specs), 2, 1):
                    continue
                out.append({"harness": "c03.fractional", "params": {"winner": "A", "specs": list(sub_), "as_tuple": k % 2 == 0},
                            "sig_keys": ["winner"], "name": f"fractional {[C.shape_str(s) for s, _ in sub_]}"})
                if k <= (3 if q else 4):
                    out.append({"harness": "c03.random", "params": {"winner": "A", "specs": list(sub_), "W": 2 if q else 3},
                                "sig_keys": ["winner"], "name": f"random {[C.shape_str(s) for s, _ in sub_]}", "weight": 3})
    # "every transferable ballot is equally likely": inclusion-probability law over all draws (any random API)
    def law(specs, W, T, **kw):
        d = {"kind": "call", "module": "props.c03", "func": "run_random_law", "harness": "c03.random_law", "closed_form": "random_transfer_inclusion",
             "law_label": "random_transfer_inclusion", "replay_harness": "c03.random_law_replay",
             "params": {"winner": "A", "specs": specs, "W": W, "T": T}, "sig_keys": ["winner"],
             "name": f"random law T={T} W={W} {[C.shape_str(s) for s, _ in specs]}", "weight": 6, "no_assert_ok": True}
        d.update(kw)
        return d
    LAW = [[("A>B", ""), ("A>C", "")], [("A>B", ""), ("A>C", ""), ("A", "")], [("A>B>C", ""), ("A>C", ""), ("B>A", "")]]
    if not q:
        LAW += [[("A>B", ""), ("A>C", ""), ("A>B", "id")], [("A>B>C", ""), ("A>C>B", ""), ("A", ""), ("C>A", "")]]
    for sp in LAW:
        for T in ((1, 2) if q else (1, 2, 3, 4)):
            out.append(law(_specs(sp), 2 if q else 3, T))
    out.append(law(_specs(LAW[0]), 2, 1, canary="first-ballots-preferred", name="canary:first-ballots-preferred"))
    # part B: conservation on every round of real STV runs
    out += [t for t in c02.tasks(tier, seed, checks=("c03",), canaries=["conservation-forgets-exhausted"])]
    out.append({"harness": "c03.fractional", "params": {"winner": "A", "specs": _specs(SPECS_Q[0]), "as_tuple": False},
                "canary": "factor-over-threshold", "stop_on_violation": True, "name": "canary:factor-over-threshold", "xval_stride": 0})
    out.append({"harness": "c03.random", "params": {"winner": "A", "specs": _specs(SPECS_Q[0])[:2], "W": 2},
                "canary": "sample-one-more", "stop_on_violation": True, "name": "canary:sample-one-more", "xval_stride": 0})
    return out


META = {
    "explanation": "fractional_transfer/random_transfer executed on proxies with symbolic tally, threshold and weights; per-ranking output weight compared with the definition by z3; STV runs audited round by round for the conservation identity",
    "assumptions": ["A-LD", "A-RND (random.sample: uniform without replacement; outcomes enumerated up to identity of equal unit ballots)", "A-FMT", "A-PD",
                    "threshold is a symbolic real >= 1 in the fractional unit harness (integrality is irrelevant to the formula)"],
}
