"""C03 -- surplus transfers and STV rounds conserve votes.
Part A: fractional_transfer / random_transfer as units with symbolic tallies, thresholds, weights.
Part B: conservation identity on every round of STV runs (shared harness stv.run, group c03)."""
from __future__ import annotations

import itertools
from fractions import Fraction as RealFraction

from sx import core
from sx.core import eq, ne, le, lt, ge, gt, AND, OR, NOT, add, sub, mul, div, num
from sx.engine import harness
from . import common as C, families as F, stv, c02
from .c01 import supports_of, where_raised


def mk_ballots(ctx, specs, integer_w=None):
    """specs: list of (shape, flags) ; returns ballots and [(shape, weight)]"""
    from votekit.ballot import Ballot
    ballots, rows = [], []
    for i, (shape, flags) in enumerate(specs):
        w = ctx.real(f"w{i}", lo=0, lo_strict=True)
        if integer_w:
            ctx.assume(OR(*[eq(w, k) for k in range(1, integer_w + 1)]))
        kw = {}
        if "id" in flags:
            kw["id"] = f"b{i}"
        if "voters" in flags:
            kw["voter_set"] = {f"v{i}"}
        ballots.append(Ballot(ranking=C.to_ranking(shape), weight=w, **kw))
        rows.append((shape, w))
    return ballots, rows


def out_map(out_ballots):
    return C.weight_by_ranking(C.ballots_as_present_tuple(out_ballots))


@harness("c03.fractional")
def fractional(ctx):
    from votekit.elections import fractional_transfer
    P = ctx.params
    winner = P["winner"]
    ballots, rows = mk_ballots(ctx, P["specs"])
    fpv = ctx.real("fpv", lo=0, lo_strict=True)
    T = ctx.real("T", lo=1)
    ctx.assume(ge(fpv, T))
    if P.get("as_tuple"):
        ballots = tuple(ballots)
    try:
        out = fractional_transfer(winner, fpv, ballots, T)
    except Exception as exc:
        ctx.fail(f"c03:fractional-raises:{type(exc).__name__}@{where_raised(exc)}", str(exc)[:200])
        return {"kind": "exc"}
    tv = div(sub(fpv, T), fpv)
    if ctx.canary == "factor-over-threshold":
        tv = div(sub(fpv, T), T)
    expected = {}
    for shape, w in rows:
        led = [c for c in shape[0]] == [winner]
        k = C.key_of(C.img(shape, {winner}))
        if not k:
            continue
        ww = mul(w, tv) if led else num(w)
        expected[k] = add(expected[k], ww) if k in expected else ww
    got = {}
    for b in out:
        if not b.ranking:
            ctx.fail("c03:output-without-ranking")
            return {"kind": "bad"}
        k = tuple(tuple(sorted(p)) for p in b.ranking)
        if any(winner in p for p in k):
            ctx.fail("c03:winner-still-listed", f"{k}")
            return {"kind": "bad"}
        if k not in expected:
            ctx.fail("c03:ranking-not-image-of-input", f"{k}")
            return {"kind": "bad"}
        got[k] = add(got[k], b.weight) if k in got else num(b.weight)
        ctx.require(gt(b.weight, 0), "c03:nonpositive-output-weight", f"{k}")
    ctx.require(stv.maps_equal(got, expected), "c03:fractional-weights",
                "per continuing ranking: sum of output weights != led*(tally-threshold)/tally + others at full weight")
    return {"kind": "ok", "rankings": sorted(map(str, got))}


@harness("c03.random")
def random_tr(ctx):
    from votekit.elections import random_transfer
    from votekit.ballot import Ballot
    P = ctx.params
    winner, W = P["winner"], P["W"]
    ballots, rows = mk_ballots(ctx, P["specs"], integer_w=W)
    led = [(s, w) for s, w in rows if [c for c in s[0]] == [winner]]
    # concrete integer weights (fork over the W values each)
    ws = {}
    for i, (s, w) in enumerate(rows):
        for k in range(1, W + 1):
            if ctx.truth(eq(w, k)):
                ws[i] = k
                break
    fpv = sum(ws[i] for i, (s, w) in enumerate(rows) if [c for c in s[0]] == [winner])
    if fpv < 1:
        ctx.require(True, "c03:no-led-ballot")
        return {"kind": "skip"}
    T = 1 + ctx.choose(fpv)  # threshold in 1..fpv
    try:
        out = random_transfer(winner, RealFraction(fpv), ballots, T)
    except Exception as exc:
        tag = "[surplus>transferable]" if ctx.notes.get("sample_overdraw") else ""
        ctx.fail(f"c03:random-raises:{type(exc).__name__}@{where_raised(exc)}{tag}", str(exc)[:200])
        return {"kind": "exc"}
    calls = [c for c in ctx.rlog if c["fn"] == "sample"]
    if len(calls) != 1:
        ctx.fail("c03:random-sample-calls", f"{len(calls)} sample() calls")
        return {"kind": "bad"}
    call = calls[0]
    # population: one unit ballot per unit of weight of each transferable led ballot
    want_units = {}
    for i, (s, w) in enumerate(rows):
        if [c for c in s[0]] == [winner]:
            k = C.key_of(C.img(s, {winner}))
            if k:
                want_units[k] = want_units.get(k, 0) + ws[i]
    got_units = {}
    for b in call["population"]:
        k = tuple(tuple(sorted(p)) for p in b.ranking)
        got_units[k] = got_units.get(k, 0) + 1
        if b.weight != 1:
            ctx.fail("c03:random-population-not-unit-ballots", f"{k} weight {b.weight}")
            return {"kind": "bad"}
    if got_units != want_units:
        ctx.fail("c03:random-population", f"sampled from {got_units}, transferable units are {want_units}")
        return {"kind": "bad"}
    if call["k"] != fpv - T or (ctx.canary == "sample-one-more" and True):
        ctx.fail("c03:random-sample-size", f"k={call['k']} but tally-threshold={fpv - T}")
        return {"kind": "bad"}
    expected = {}
    for i, (s, w) in enumerate(rows):
        if [c for c in s[0]] != [winner]:
            k = C.key_of(C.img(s, {winner}))
            if k:
                expected[k] = expected.get(k, 0) + ws[i]
    for b in call["outcome"]:
        k = tuple(tuple(sorted(p)) for p in b.ranking)
        expected[k] = expected.get(k, 0) + 1
    got = {}
    for b in out:
        k = tuple(tuple(sorted(p)) for p in b.ranking) if b.ranking else ()
        if any(winner in p for p in k):
            ctx.fail("c03:winner-still-listed", f"{k}")
            return {"kind": "bad"}
        got[k] = add(got[k], b.weight) if k in got else num(b.weight)
    ctx.require(stv.maps_equal(got, {k: RealFraction(v) for k, v in expected.items()}), "c03:random-weights",
                "returned ballots are not the non-led ballots plus the drawn unit ballots")
    return {"kind": "ok", "T": T, "fpv": fpv}


SPECS_Q = [
    [("A>B", ""), ("A", ""), ("B>A>C", ""), ("C>B", "")],
    [("A>B>C", "id"), ("A>B>C", ""), ("A>C", "voters"), ("B>C", "")],
    [("A>C>B", ""), ("C>A", ""), ("A>B", ""), ("A>B", "id,voters")],
]
SPECS_T = SPECS_Q + [
    [("A>B", ""), ("A>C", ""), ("A", ""), ("B>A", ""), ("C", ""), ("A>B>C", "")],
    [("A>B>C", ""), ("A>C>B", ""), ("B>C>A", ""), ("C>A>B", ""), ("A", "id"), ("B", "")],
]


def _specs(sp):
    return [(C.R(s), [f for f in fl.split(",") if f]) for s, fl in sp]


def tasks(tier, seed):
    q = tier == "quick"
    out = []
    for i, sp in enumerate(SPECS_Q if q else SPECS_T):
        specs = _specs(sp)
        for k in range(1, len(specs) + 1):
            for sub_ in itertools.combinations(specs, k):
                if q and k not in (len(specs), 2, 1):
                    continue
                out.append({"harness": "c03.fractional", "params": {"winner": "A", "specs": list(sub_), "as_tuple": k % 2 == 0},
                            "sig_keys": ["winner"], "name": f"fractional {[C.shape_str(s) for s, _ in sub_]}"})
                if k <= (3 if q else 4):
                    out.append({"harness": "c03.random", "params": {"winner": "A", "specs": list(sub_), "W": 2 if q else 3},
                                "sig_keys": ["winner"], "name": f"random {[C.shape_str(s) for s, _ in sub_]}", "weight": 3})
    # part B: conservation on every round of real STV runs
    out += [t for t in c02.tasks(tier, seed, checks=("c03",), canaries=["conservation-forgets-exhausted"])]
    out.append({"harness": "c03.fractional", "params": {"winner": "A", "specs": _specs(SPECS_Q[0]), "as_tuple": False},
                "canary": "factor-over-threshold", "stop_on_violation": True, "name": "canary:factor-over-threshold", "xval_stride": 0})
    out.append({"harness": "c03.random", "params": {"winner": "A", "specs": _specs(SPECS_Q[0])[:2], "W": 2},
                "canary": "sample-one-more", "stop_on_violation": True, "name": "canary:sample-one-more", "xval_stride": 0})
    return out


META = {
    "explanation": "fractional_transfer/random_transfer executed on proxies with symbolic tally, threshold and weights; per-ranking output weight compared with the definition by z3; STV runs audited round by round for the conservation identity",
    "assumptions": ["A-LD", "A-RND (random.sample: uniform without replacement; outcomes enumerated up to identity of equal unit ballots)", "A-FMT", "A-PD",
                    "threshold is a symbolic real >= 1 in the fractional unit harness (integrality is irrelevant to the formula)"],
}
