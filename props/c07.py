"""C07 -- STV meets Droop proportionality for solid coalitions; IRV majority criterion.
The axiom is the oracle: for every explored path (concrete threshold T, concrete elected set, path
condition over the weights) and every coalition S and k, z3 must refute
   pc  &  (weight of ballots solid for S) >= k*T      whenever fewer than min(k,|S|,m) of S were elected."""
from __future__ import annotations

from . import common as C, families as F, stv
from .c01 import supports_of


def opt(s, t, tb):
    return {"quota": "droop", "simultaneous": s, "transfer": t, "tiebreak": tb}


def tasks(tier, seed):
    q = tier == "quick"
    fams3 = F.base3(q)
    out = []
    sl = [("STV", opt(True, "fractional", None)), ("STV", opt(False, "fractional", "random")),
          ("STV", opt(True, "random", "random")), ("STV", opt(False, "random", "borda")),
          ("IRV", {"quota": "droop", "tiebreak": "random"})]
    for i, (rule, o) in enumerate(sl):
        fams = [fams3[i % len(fams3)], fams3[(i + 1) % len(fams3)]] if q else fams3
        W = 2 if o.get("transfer") == "random" else None
        ms = (1,) if rule == "IRV" else (1, 2)
        for sup in supports_of(fams, sizes=(1, 2, 3) if q else None):
            for m in ms:
                out.append(stv.mk_task(rule, m, o, sup, C.K3, ("c07",), nmax=6 if q else 9, W=W, weight=len(sup),
                                       xval_stride=4 if q else 10))
    # four candidates, three seats: two coalitions {A,C}, {B,D} whose leaders can reach quota together
    pair_fam = F.fam("A>C", "B>D", "C>A", "D>B")
    for (rule, o) in (sl[0], sl[2]) if q else sl[:4]:
        W = 2 if o.get("transfer") == "random" else None
        for sup in supports_of([pair_fam], sizes=(4,) if q else (3, 4)):
            for m in ((3,) if q else (2, 3)):
                out.append(stv.mk_task(rule, m, o, sup, C.K4, ("c07",), nmax=8 if W is None else 6, W=W, weight=12, xval_stride=6, split=4))
    # random transfer out of one large pile with two kinds of next preference: a draw that took the same physical
    # ballot twice would hand the minority continuation more than it holds (weights up to 5 per shape)
    for (rule, o) in (sl[2], sl[3]):
        for sup in ([F.fam("A>B", "A>C")] if q else [F.fam("A>B", "A>C"), F.fam("A>B", "A>C", "C"), F.fam("A>B>C", "A>C>B", "C>A>B")]):
            out.append(stv.mk_task(rule, 2, o, sup, C.K3, ("c07",), nmax=6 if len(sup) == 2 else 7, W=5 if len(sup) == 2 else 4, weight=10, xval_stride=6))
    if not q:
        for (rule, o) in sl[:4]:
            W = 2 if o.get("transfer") == "random" else None
            for fam in F.base4(False):
                for sup in supports_of([fam], sizes=(2, 3)):  # 4 shapes over 4 candidates: z3 answers unknown on some paths (2 h run)
                    for m in (1, 2, 3):
                        out.append(stv.mk_task(rule, m, o, sup, C.K4, ("c07",), nmax=8, W=W, weight=3 * len(sup), xval_stride=10))
    out.append(stv.mk_task("STV", 2, opt(True, "fractional", None), F.fam("A>B", "B>A", "C"), C.K3, ("c07",), nmax=6,
                           canary="psc-demands-one-more", stop_on_violation=True, name="canary:psc-demands-one-more", xval_stride=0))
    return out


META = {
    "explanation": "Droop-PSC axiom asked of z3 on every path of real STV/IRV runs (fractional and random transfer, all random outcomes explored by stubs)",
    "assumptions": ["A-LD", "A-RND", "A-FMT", "A-PD", "Droop quota only", "runs that raise are C01's subject"],
}
