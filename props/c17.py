"""C17 -- randomised rules and random tiebreaks draw from the documented distributions."""
from __future__ import annotations

import itertools
import json
from fractions import Fraction as RealFraction

import z3

from sx import core
from sx.core import PathBudget, eq, ne, le, lt, ge, gt, AND, OR, NOT, add, sub, mul, div, num, lift
from sx.engine import harness
from . import common as C, families as F, c01, laws
from .c01 import supports_of


@harness("c17.dictator", extra=c01.EXTRA, float_mix="real", path_alarm=60.0)
def dictator(ctx):
    P = ctx.params
    rule, m, cands = P["rule"], P["m"], P["cands"]
    profile, present = C.family_profile(ctx, P["family"], cands, strict=True)
    try:
        e = c01.construct(rule, profile, m, P.get("opts", {}))
    except (Exception, PathBudget):
        return {"kind": "excluded"}  # C01's business
    if rule in ("RandomDictator", "BoostedRandomDictator"):
        return {"kind": "seq", "elected": [sorted(s)[0] for s in e.get_elected()]}
    st = e.election_states[1]
    return {"kind": "tiebreak", "res": sorted([sorted(k), [sorted(x)[0] for x in v]] for k, v in st.tiebreaks.items()),
            "elected": [sorted(s) for s in st.elected]}


def _weights(vals, params):
    """(shape, weight-term) rows from a variable valuation (z3 vars in sym, Fractions in conc)"""
    rows = []
    for i, s in enumerate(params["family"]):
        w = vals[f"w{i}"]
        rows.append((s, core.SF(w) if isinstance(w, z3.ExprRef) else w))
    return rows


def shares(rows, alive):
    """first-place share of every alive candidate among non-exhausted ballots (ties split evenly)"""
    fp = {c: RealFraction(0) for c in alive}
    for shape, w in rows:
        im = C.img(shape, set(c for p in shape for c in p) - set(alive))
        if not im:
            continue
        for c in im[0]:
            fp[c] = add(fp[c], div(w, len(im[0])))
    tot = add(*fp.values())
    return {c: div(fp[c], tot) for c in alive}, tot


@laws.closed_form("random_dictator")
def cf_random_dictator(vals, outcomes, params, canary):
    rows = _weights(vals, params)
    want = {}
    for k, o in outcomes.items():
        alive = list(params["cands"])
        p = RealFraction(1)
        for x in o["elected"]:
            sh, _ = shares(rows, alive)
            px = sh[x]
            if canary == "uniform-over-ballots":
                px = div(1, len(alive))
            p = mul(p, px)
            alive.remove(x)
        want[k] = lift(p) if core.is_sym(p) else p
    return want


@laws.closed_form("boosted_random_dictator")
def cf_boosted(vals, outcomes, params, canary):
    rows = _weights(vals, params)
    want = {}
    for k, o in outcomes.items():
        alive = list(params["cands"])
        p = RealFraction(1)
        for x in o["elected"]:
            c = len(alive)
            if c == 1:
                px = RealFraction(1)
            else:
                sh, _ = shares(rows, alive)
                sq = add(*[mul(sh[y], sh[y]) for y in alive])
                boost = RealFraction(1, c - 1)
                if canary == "boost-probability-one-over-c":
                    boost = RealFraction(1, c)
                px = add(mul(sub(1, boost), sh[x]), mul(boost, div(mul(sh[x], sh[x]), sq)))
            p = mul(p, px)
            alive.remove(x)
        want[k] = lift(p) if core.is_sym(p) else p
    return want


@laws.closed_form("random_tiebreak")
def cf_tiebreak(vals, outcomes, params, canary):
    """every resolution of the tied set is equally likely; no tiebreak -> a single outcome of probability 1"""
    import math
    want = {}
    for k, o in outcomes.items():
        if not o["res"]:
            want[k] = RealFraction(1)
        else:
            n = len(o["res"][0][0])
            want[k] = RealFraction(1, math.factorial(n))
            if canary == "first-of-set-preferred":
                want[k] = RealFraction(1, n)
    return {k: (z3.RealVal(str(v)) if False else v) for k, v in want.items()}


def constraints(vars_):
    return [v > 0 for n, v in vars_.items() if n.startswith("w")]


def run_law(task):
    return laws.run_law(task, laws.CLOSED_FORMS[task["closed_form"]], constraints)


def tasks(tier, seed):
    q = tier == "quick"
    out = []
    def t(rule, m, sup, cf, cands=C.K3, opts=None, **kw):
        d = {"kind": "call", "module": "props.c17", "func": "run_law", "harness": "c17.dictator", "closed_form": cf, "law_label": cf,
             "params": {"rule": rule, "m": m, "family": sup, "cands": cands, "opts": opts or {}},
             "sig_keys": ["rule", "m"], "name": f"{rule} m={m} {[C.shape_str(s) for s in sup]}", "weight": 3 * len(sup) * m,
             "no_assert_ok": True, "budget_s": 600 if q else 2400, "max_paths": 20000 if q else 100000}
        d.update(kw)
        return d
    fams = [F.fam("A", "B>A", "AB>C", "C>B>A"), F.fam("A>B", "B", "C>A>B"), F.fam("A>B>C", "B>C>A", "C>A>B", "AC>B")]
    if not q:
        fams += [F.fam("ABC", "A>B", "C"), F.fam("A>C", "B>C", "C", "AB")]
    for fam in fams:
        for sup in supports_of([fam], sizes=(2, 3) if q else (2, 3, 4)):
            for m in (1, 2):
                out.append(t("RandomDictator", m, sup, "random_dictator"))
                if len(sup) <= 3 or m == 1:
                    out.append(t("BoostedRandomDictator", m, sup, "boosted_random_dictator"))
    # four candidates: the second seat's branch is not forced (c = 3 after the first seat)
    out.append(t("BoostedRandomDictator", 2, F.fam("A>B", "B>C>D", "D"), "boosted_random_dictator", cands=C.K4, budget_s=900 if q else 3000))
    out.append(t("RandomDictator", 2, F.fam("A>B", "B>C>D", "D"), "random_dictator", cands=C.K4))
    if not q:
        f4 = F.fam("A>B", "B>C>D", "CD>A", "D")
        for sup in supports_of([f4], sizes=(2, 3)):
            for m in (1, 2, 3):
                out.append(t("RandomDictator", m, sup, "random_dictator", cands=C.K4))
                if m <= 2 and (len(sup) == 2 or m == 1):  # larger boosted laws over four candidates exceed the 40-minute task budget
                    out.append(t("BoostedRandomDictator", m, sup, "boosted_random_dictator", cands=C.K4))
    for fam in [F.fam("A", "B", "C>A"), F.fam("A>B", "B>A", "C")] + ([] if q else [F.fam("A", "B", "C")]):
        for sup in supports_of([fam], sizes=(2, 3)):
            for m in (1, 2):
                out.append(t("Plurality", m, sup, "random_tiebreak", opts={"tiebreak": "random"}))
            out.append(t("STV", 1, sup, "random_tiebreak_stv", opts={"quota": "droop", "simultaneous": True, "transfer": "fractional", "tiebreak": "random"}) if False else
                       t("Borda", 1, sup, "random_tiebreak", opts={"tiebreak": "random"}))
    out.append(t("RandomDictator", 1, F.fam("A", "B>A"), "random_dictator", canary="uniform-over-ballots", name="canary:uniform-over-ballots"))
    out.append(t("BoostedRandomDictator", 1, F.fam("A", "B>A"), "boosted_random_dictator", canary="boost-probability-one-over-c", name="canary:boost-probability-one-over-c"))
    out.append(t("Plurality", 1, F.fam("A", "B", "C"), "random_tiebreak", opts={"tiebreak": "random"}, canary="first-of-set-preferred", name="canary:first-of-set-preferred"))
    return out


META = {
    "explanation": "RandomDictator / BoostedRandomDictator / random tiebreaks executed with the random stubs forking over every outcome and multiplying the outcome's probability; the weight space is cut into cells (AllSAT over the weight-only branch conditions) and on every cell z3 must refute 'sum of path probabilities != closed form' for every elected sequence / tiebreak resolution, and 'probabilities do not sum to 1'",
    "assumptions": ["A-RND (random.choices: proportional to weights; random.sample: uniform; numpy.random.choice(p): proportional to p; uniform(0,1) <= t has probability t)",
                    "floats abstracted as reals in BoostedRandomDictator's squares branch (float thresholds such as 1/(c-1) stand for the rational they approximate)", "paths that raise are C01's subject and excluded"],
}
