"""C16 -- generated ballots follow the documented model distributions."""
from __future__ import annotations

import itertools
import json
import math
from fractions import Fraction as RealFraction

import z3

from sx import core, env
from sx.core import PathBudget, eq, ne, le, lt, ge, gt, AND, OR, NOT, add, sub, mul, div, num, lift
from sx.engine import harness
from . import common as C, gen, laws
from .gen import ex


@harness("c16.sample", extra=gen.EXTRA, float_mix="real", path_alarm=90.0, max_branches=20000)
def sample(ctx):
    """run a generator with symbolic parameters; outcome = multiset of generated ballots"""
    P = ctx.params
    try:
        g, info = gen.build_generator(ctx, P)
        if P.get("method") == "MCMC":
            res = g.generate_profile_MCMC(P["N"]) if P["cls"] == "name_BradleyTerry" else g.generate_profile(P["N"], deterministic=False)
        else:
            res = g.generate_profile(P["N"])
    except PathBudget:
        raise
    except Exception as exc:
        return {"kind": "excluded", "why": type(exc).__name__}
    # alignment of names and probabilities in every np.random.choice call (the part VoteKit owns)
    if P["cls"] in ("name_PlackettLuce", "short_name_PlackettLuce", "name_Cumulative"):
        pi = g.pref_interval_by_bloc[info["blocs"][0]].interval
        for call in ctx.rlog:
            if call["fn"] == "np.choice" and call.get("p") is not None and all(isinstance(a, str) for a in call["a"]) and set(call["a"]) <= set(pi):
                ctx.require(AND(*[eq(ex(p), ex(pi[a])) for a, p in zip(call["a"], call["p"])]), "c16:choice-probabilities-misaligned",
                            "np.random.choice received p[i] != interval[a[i]]")
    rows = []
    for rk, sc, w in gen.profile_rows(res):
        rows.append([[list(p) for p in rk], [list(x) for x in sc], gen.weight_int(ctx, w)])
    rows.sort(key=lambda r: json.dumps(r))
    return {"kind": "ballots", "rows": rows}


# ---------------------------------------------------------------------------
# closed forms (written from the statement), as functions of the symbolic parameters
# ---------------------------------------------------------------------------
def V(vals, name):
    v = vals[name]
    return core.SF(v) if isinstance(v, z3.ExprRef) else RealFraction(v)


def sup_of(vals, prefix, cands):
    """supports on the simplex: last = 1 - sum(others)"""
    out = {}
    for c in cands[:-1]:
        out[c] = V(vals, f"{prefix}_{c}")
    out[cands[-1]] = sub(1, add(*out.values())) if out else RealFraction(1)
    return out


def PL(order, sup):
    """successive sampling without replacement"""
    tot = add(*[sup[c] for c in sup])
    p = RealFraction(1)
    for c in order:
        p = mul(p, div(sup[c], tot))
        tot = sub(tot, sup[c])
    return p


def is_zero(x):
    """syntactic zero test on the oracle side: cells decide every support's sign, so a support that is
    zero in the cell is recognised by asking the cell solver (set by the law machinery)"""
    return CELL["solver"] is not None and CELL["solver"].check(lift(x) != 0) == z3.unsat if core.is_sym(x) else x == 0


CELL = {"solver": None}


def multiset_law(single, rows):
    """i.i.d. ballots: probability of the observed multiset"""
    n = sum(r[2] for r in rows)
    coef = math.factorial(n)
    p = RealFraction(1)
    for r in rows:
        coef //= math.factorial(r[2])
        for _ in range(r[2]):
            p = mul(p, single(r))
    return mul(p, coef)


def params_of(vals, P):
    slates = P["slates"]
    blocs = list(slates)
    b0 = blocs[0]
    sup = {s: sup_of(vals, f"s{b0}{s}", slates[s]) for s in blocs}
    if len(blocs) == 2:
        c0 = V(vals, "coh")
        coh = {blocs[0]: c0, blocs[1]: sub(1, c0)}
    elif len(blocs) > 2:
        coh = sup_of(vals, "coh", blocs)
    else:
        coh = {b0: RealFraction(1)}
    return blocs, slates, sup, coh


def combined(blocs, slates, sup, coh):
    return {c: mul(coh[s], sup[s][c]) for s in blocs for c in slates[s]}


def split_zero(I):
    zero = [c for c in I if is_zero(I[c])]
    return {c: v for c, v in I.items() if c not in zero}, zero


def ranking_parts(row):
    rk = row[0]
    return rk


@laws.closed_form("name_pl")
def cf_name_pl(vals, outcomes, P, canary):
    blocs, slates, sup, coh = params_of(vals, P)
    I, zero = split_zero(combined(blocs, slates, sup, coh))
    L = P.get("ballot_length")
    def single(row):
        rk = row[0]
        head = [p[0] for p in rk if len(p) == 1 and p[0] in I]
        p = PL(head, I)
        if L is not None and len(I) < L:
            # fewer supported candidates than the ballot length: the remaining places are one tied set of
            # zero-support candidates drawn uniformly
            p = mul(p, RealFraction(1, math.comb(len(zero), L - len(I))))
        return p
    want = {}
    for k, o in outcomes.items():
        want[k] = multiset_law(single, o["rows"])
        if canary == "with-replacement":
            want[k] = mul(want[k], 2)
    return {k: (lift(v) if core.is_sym(v) else v) for k, v in want.items()}


@laws.closed_form("name_cumulative")
def cf_name_cum(vals, outcomes, P, canary):
    blocs, slates, sup, coh = params_of(vals, P)
    I, zero = split_zero(combined(blocs, slates, sup, coh))
    tot = add(*I.values())
    def single(row):
        sc = {c: int(RealFraction(v)) for c, v in row[1]}
        n = sum(sc.values())
        coef = math.factorial(n)
        p = RealFraction(1)
        for c, kk in sc.items():
            coef //= math.factorial(kk)
            for _ in range(kk):
                p = mul(p, div(I[c], tot)) if c in I else RealFraction(0)
        return mul(p, coef)
    return {k: (lambda v: lift(v) if core.is_sym(v) else v)(multiset_law(single, o["rows"])) for k, o in outcomes.items()}


def pattern_law_spl(pattern, sizes, coh):
    """slate-PL: sequential cohesion-weighted choice renormalised over non-exhausted slates"""
    left = dict(sizes)
    p = RealFraction(1)
    for b in pattern:
        live = [s for s in left if left[s] > 0]
        tot = add(*[coh[s] for s in live])
        if is_zero(tot):
            # remaining slates have zero cohesion: documented fallback is a uniform arrangement
            return None
        p = mul(p, div(coh[b], tot))
        left[b] -= 1
    return p


def within_slates(rk_flat, blocs, slates, supnz):
    p = RealFraction(1)
    for s in blocs:
        order = [c for c in rk_flat if c in supnz[s]]
        if order:
            p = mul(p, PL(order, supnz[s]))
    return p


@laws.closed_form("slate_pl")
def cf_slate_pl(vals, outcomes, P, canary):
    blocs, slates, sup, coh = params_of(vals, P)
    supnz = {}
    zero = []
    for s in blocs:
        nz, z = split_zero(sup[s])
        supnz[s] = nz
        zero += z
    sizes = {s: len(supnz[s]) for s in blocs}
    def single(row):
        flat = [p[0] for p in row[0] if len(p) == 1 and p[0] not in zero]
        pattern = [next(s for s in blocs if c in slates[s]) for c in flat]
        pp = pattern_law_spl(pattern, sizes, coh)
        if pp is None:
            raise laws.Excluded()
        return mul(pp, within_slates(flat, blocs, slates, supnz))
    return {k: (lambda v: lift(v) if core.is_sym(v) else v)(multiset_law(single, o["rows"])) for k, o in outcomes.items()}


def bt_weight(order, I):
    p = RealFraction(1)
    for i in range(len(order)):
        for j in range(i + 1, len(order)):
            p = mul(p, div(I[order[i]], add(I[order[i]], I[order[j]])))
    return p


@laws.closed_form("name_bt")
def cf_name_bt(vals, outcomes, P, canary):
    blocs, slates, sup, coh = params_of(vals, P)
    I, zero = split_zero(combined(blocs, slates, sup, coh))
    tot = add(*[bt_weight(list(o), I) for o in itertools.permutations(list(I))])
    def single(row):
        head = [p[0] for p in row[0] if len(p) == 1 and p[0] in I]
        return div(bt_weight(head, I), tot)
    return {k: (lambda v: lift(v) if core.is_sym(v) else v)(multiset_law(single, o["rows"])) for k, o in outcomes.items()}


@laws.closed_form("slate_bt")
def cf_slate_bt(vals, outcomes, P, canary):
    blocs, slates, sup, coh = params_of(vals, P)
    supnz, zero = {}, []
    for s in blocs:
        nz, z = split_zero(sup[s])
        supnz[s] = nz
        zero += z
    own, opp = blocs[0], blocs[1]
    c = coh[own]
    na, nb = len(supnz[own]), len(supnz[opp])
    def g(t):
        succ = sum(list(t[i + 1:]).count(opp) for i, x in enumerate(t) if x == own)
        r = RealFraction(1)
        for _ in range(succ):
            r = mul(r, c)
        for _ in range(na * nb - succ):
            r = mul(r, sub(1, c))
        return r
    types = set(itertools.permutations([own] * na + [opp] * nb))
    tot = add(*[g(t) for t in types])
    def single(row):
        flat = [p[0] for p in row[0] if len(p) == 1 and p[0] not in zero]
        pattern = tuple(next(s for s in blocs if x in slates[s]) for x in flat)
        return mul(div(g(pattern), tot), within_slates(flat, blocs, slates, supnz))
    return {k: (lambda v: lift(v) if core.is_sym(v) else v)(multiset_law(single, o["rows"])) for k, o in outcomes.items()}


@laws.closed_form("alternating_crossover")
def cf_ac(vals, outcomes, P, canary):
    """given the apportioned split (bloc-first, crossover) of bloc X: every ballot orders each slate by
    Plackett-Luce from X's interval for that slate, independently per ballot"""
    blocs, slates, sup, coh = params_of(vals, P)
    own, opp = blocs[0], blocs[1]
    supnz = {s: split_zero(sup[s])[0] for s in blocs}
    nb, nc = P["apportion_fixed"][0], P["apportion_fixed"][1]
    def kind(row):
        return "bloc" if row[0][0][0] in slates[own] else "cross"
    def single(row):
        flat = [p[0] for p in row[0]]
        return within_slates(flat, blocs, slates, supnz)
    want = {}
    for k, o in outcomes.items():
        rows = o["rows"]
        groups = {"bloc": [r for r in rows if kind(r) == "bloc"], "cross": [r for r in rows if kind(r) == "cross"]}
        p = RealFraction(1)
        for kk, n in (("bloc", nb), ("cross", nc)):
            if sum(r[2] for r in groups[kk]) != n:
                p = RealFraction(0)
                break
            if groups[kk]:
                p = mul(p, multiset_law(single, groups[kk]))
        want[k] = lift(p) if core.is_sym(p) else p
    return want


@laws.closed_form("impartial_culture")
def cf_ic(vals, outcomes, P, canary):
    n = len([c for s in P["slates"].values() for c in s])
    def single(row):
        return RealFraction(1, math.factorial(n))
    return {k: multiset_law(single, o["rows"]) for k, o in outcomes.items()}


# ---------------------------------------------------------------------------
# MCMC samplers: one-step kernels extracted from short chains, detailed balance against the C15 definitions
# ---------------------------------------------------------------------------
@harness("c16.mcmc_slate", extra=gen.EXTRA, float_mix="real", path_alarm=60.0)
def mcmc_slate(ctx):
    bg = env.import_generators()
    from votekit.pref_interval import PreferenceInterval
    P = ctx.params
    a, b = P["sizes"]
    c0, c1 = gen.cohesion_pair(ctx, "coh")
    if ctx.sym:
        ctx.assume(AND(gt(c0, 0), lt(c0, 1)))
    obj = object.__new__(bg.slate_BradleyTerry)
    obj.blocs = ["X", "Y"]
    obj.pref_intervals_by_bloc = {"X": {"X": PreferenceInterval({f"x{i}": 1.0 for i in range(a)}), "Y": PreferenceInterval({f"y{i}": 1.0 for i in range(b)})}}
    obj.cohesion_parameters = {"X": {"X": c0, "Y": c1}}
    try:
        chain = obj._sample_ballot_types_MCMC("X", P["L"])
    except Exception as exc:
        return {"kind": "excluded", "why": type(exc).__name__}
    return {"kind": "chain", "states": ["".join(s) for s in chain], "seed": "X" * a + "Y" * b}


@harness("c16.mcmc_name", extra=gen.EXTRA, float_mix="real", path_alarm=60.0)
def mcmc_name(ctx):
    bg = env.import_generators()
    from votekit.ballot import Ballot
    P = ctx.params
    cands = P["cands"]
    I = gen.simplex(ctx, "iv", cands, all_positive=True)
    obj = object.__new__(bg.name_BradleyTerry)
    seed = Ballot(ranking=tuple(frozenset({c}) for c in P["seed"]))
    try:
        pp = obj._BT_mcmc(1, dict(I), seed, zero_cands={})
    except Exception as exc:
        return {"kind": "excluded", "why": type(exc).__name__}
    (bal,) = pp.ballots
    return {"kind": "step", "to": "".join(sorted(p)[0] for p in bal.ranking), "from": "".join(P["seed"])}


def slate_pi(t, c):
    own = sum(t[i + 1:].count("Y") for i, x in enumerate(t) if x == "X")
    other = t.count("X") * t.count("Y") - own
    r = RealFraction(1)
    for _ in range(own):
        r = mul(r, c)
    for _ in range(other):
        r = mul(r, sub(1, c))
    return r


def check_slate_mcmc(law, outcomes, cvars, params, canary, sc):
    """chain law P(x1..xL) -> kernel K(x,y) for every state x visited before the last step; detailed balance
    pi(x) K(x,y) = pi(y) K(y,x) with pi the slate-Bradley-Terry definition"""
    c = core.SF(cvars["coh"])
    seqs = {tuple(o["states"]): lift(law[k]) for k, o in outcomes.items()}
    seed = next(iter(outcomes.values()))["seed"]
    # prefix laws
    L = len(next(iter(seqs)))
    pref = {}
    for s, p in seqs.items():
        for i in range(L + 1):
            pref[s[:i]] = pref.get(s[:i], z3.RealVal(0)) + p
    K = {}
    for pre, p in pref.items():
        if not pre:
            continue
        x = pre[-2] if len(pre) >= 2 else seed
        y = pre[-1]
        parent = pref[pre[:-1]]
        if sc.check(parent != 0) != z3.sat:
            continue
        K.setdefault((x, y), []).append(p / parent)
    checks = []
    for (x, y), ks in K.items():
        # the kernel must not depend on the history
        for other in ks[1:]:
            checks.append((f"K({x},{y}) history-independent", ks[0], other))
    pi = {x: lift(slate_pi(x, c)) for x in set(a for a, _ in K) | set(b for _, b in K)}
    for (x, y), ks in K.items():
        if x < y and (y, x) in K:
            lhs, rhs = pi[x] * ks[0], pi[y] * K[(y, x)][0]
            if canary == "balance-with-uniform-pi":
                lhs, rhs = ks[0], K[(y, x)][0]
            checks.append((f"detailed balance {x}<->{y}", lhs, rhs))
    return checks


@harness("c16.mcmc_slate_replay")
def mcmc_slate_replay(ctx):
    """conc: chain law of the real sampler at the model's cohesion, kernel, detailed balance (numerically)"""
    if ctx.sym:
        ctx.require(True, "noop")
        return {}
    P = ctx.params
    c = RealFraction(ctx.model["coh"])
    runs = laws.enumerate_conc("c16.mcmc_slate", P, ctx.model)
    seqs = {}
    seed = None
    for o, p in runs:
        seed = o["seed"]
        k = tuple(o["states"])
        seqs[k] = seqs.get(k, RealFraction(0)) + RealFraction(p if p is not None else 1)
    L = len(next(iter(seqs)))
    pref = {}
    for s_, p in seqs.items():
        for i in range(L + 1):
            pref[s_[:i]] = pref.get(s_[:i], RealFraction(0)) + p
    K = {}
    for pre, p in pref.items():
        if not pre or pref[pre[:-1]] == 0:
            continue
        x = pre[-2] if len(pre) >= 2 else seed
        K.setdefault((x, pre[-1]), p / pref[pre[:-1]])
    for (x, y), kxy in K.items():
        if x < y and (y, x) in K:
            lhs, rhs = float(slate_pi(x, c) * kxy), float(slate_pi(y, c) * K[(y, x)])
            if abs(lhs - rhs) > 1e-9 * max(1.0, abs(lhs), abs(rhs)):
                raise core.ConcViolation("law:slate_bt_mcmc", f"detailed balance {x}<->{y}: pi(x)K(x,y)={lhs} vs pi(y)K(y,x)={rhs} at cohesion {float(c)}")
    return {"kind": "ok"}


def run_mcmc_slate(task):
    return laws.run_law(task, None, lambda vs: [vs["coh"] > 0, vs["coh"] < 1] if "coh" in vs else [], checker=check_slate_mcmc)


def run_mcmc_name(task):
    """one-step kernel K(x, .) from every seed ballot x; the cells are enumerated over the atoms of all seeds,
    and on every cell detailed balance  pi(x) K(x,y) = pi(y) K(y,x)  is required for every pair"""
    from sx.ratnorm import Normaliser
    cands = task["params"]["cands"]
    res = laws.blank(task)
    seeds = ["".join(p) for p in itertools.permutations(cands)]
    atoms, vars_ = {}, {}
    for x in seeds:
        a, v = laws.collect_atoms(res, "c16.mcmc_name", {"cands": cands, "seed": list(x)})
        atoms.update(a)
        vars_.update(v)
    if res["harness_errors"] or res["inconclusive"]:
        return res
    base = name_constraints(cands)(vars_)
    cells = laws.enumerate_cells(res, list(atoms.values()), base)
    if cells is None:
        return res
    res["extra"]["cells"] = len(cells)
    for cell in cells:
        K = {}
        cv = dict(vars_)
        for x in seeds:
            r = laws.cell_law(res, "c16.mcmc_name", {"cands": cands, "seed": list(x)}, cell)
            if r is None:
                K = None
                break
            law, outcomes, cvars = r
            for k, o in outcomes.items():
                K[(x, o["to"])] = law[k]
        if K is None:
            continue
        vs = [core.SF(cv[f"iv_{c}"]) for c in cands[:-1]]
        I = dict(zip(cands[:-1], vs))
        I[cands[-1]] = sub(1, add(*vs)) if vs else RealFraction(1)
        sol = z3.SolverFor("QF_NRA")
        sol.set("timeout", 30000)
        sol.add(base)
        sol.add(cell)
        nz = Normaliser()
        checks = []
        for x in seeds:
            checks.append((f"K({x},.) sums to one", sum((K[(a, b)] for (a, b) in K if a == x), z3.RealVal(0)), z3.RealVal(1)))
        for (x, y), kxy in K.items():
            if x < y:
                kyx = K.get((y, x), z3.RealVal(0))
                lhs, rhs = lift(mul(bt_weight(list(x), I), core.SF(kxy))), lift(mul(bt_weight(list(y), I), core.SF(kyx)))
                if task.get("canary") == "balance-with-uniform-pi":
                    lhs, rhs = kxy, kyx
                checks.append((f"detailed balance {x}<->{y}", lhs, rhs))
        for name, lhs, rhs in checks:
            r = sol.check(nz.neq(lift(lhs), lift(rhs)), *nz.denominators_nonzero(lift(lhs), lift(rhs)))
            res["queries"] += 1
            res["asserted"] += 1
            res["extra"]["law_identities"] += 1
            if r == z3.unknown:
                res["inconclusive"].append("kernel identity unknown")
            elif r == z3.sat:
                res["violation_count"] += 1
                if len(res["violations"]) < 3:
                    x, y = (name.split()[-1].split("<->") + [None])[:2] if "<->" in name else (seeds[0], seeds[-1])
                    res["violations"].append({"label": "law:name_bt_mcmc:" + name.split()[0], "detail": name, "model": core.model_to_dict(sol.model(), cv),
                                              "script": [], "path": 0, "harness": "c16.mcmc_name_replay", "params": {"cands": cands, "x": x, "y": y}})
    return res


def name_constraints(cands):
    def f(vs):
        cs = []
        xs = [v for n, v in vs.items() if n.startswith("iv_")]
        for v in xs:
            cs += [v > 0, v < 1]
        if xs:
            cs.append(sum(xs) < 1)
        return cs
    return f


@harness("c16.mcmc_name_replay")
def mcmc_name_replay(ctx):
    """conc: enumerate the one-step kernel from x and from y with the real code, check detailed balance numerically"""
    if ctx.sym:
        ctx.require(True, "noop")
        return {}
    P = ctx.params
    cands, x, y = P["cands"], P["x"], P["y"]
    vals = {n: RealFraction(v) for n, v in ctx.model.items()}
    I = {c: vals[f"iv_{c}"] for c in cands[:-1]}
    I[cands[-1]] = 1 - sum(I.values())
    def kern(a, b):
        runs = laws.enumerate_conc("c16.mcmc_name", {"cands": cands, "seed": list(a)}, ctx.model)
        return sum(RealFraction(p if p is not None else 1) for o, p in runs if o["to"] == b)
    lhs = float(bt_weight(list(x), I)) * float(kern(x, y))
    rhs = float(bt_weight(list(y), I)) * float(kern(y, x))
    if abs(lhs - rhs) > 1e-9 * max(1.0, abs(lhs), abs(rhs)):
        raise core.ConcViolation("law:name_bt_mcmc:detailed-balance", f"{lhs} vs {rhs}")
    return {"kind": "ok"}


def constraints(vars_):
    return []


def run_law(task):
    # parameter constraints are asserted by the harness itself (simplex, [0,1]); collect them from a dry run
    return laws.run_law(task, laws.CLOSED_FORMS[task["closed_form"]], harness_constraints, cell_hook=CELL)


def harness_constraints(vars_):
    cs = []
    byname = dict(vars_)
    groups = {}
    for n, v in byname.items():
        if n == "coh":
            cs += [v >= 0, v <= 1]
        elif n.startswith("coh_"):
            cs += [v >= 0, v <= 1]
            groups.setdefault("coh", []).append(v)
        elif n.startswith(("s", "pt")) and "_" in n:
            cs += [v >= 0, v <= 1]
            groups.setdefault(n.rsplit("_", 1)[0], []).append(v)
    for g, vs in groups.items():
        cs.append(sum(vs) <= 1)
    return cs


# ---------------------------------------------------------------------------
# spatial models: a statement for every stream (no probabilities)
# ---------------------------------------------------------------------------
def l1(a, b):
    r = 0
    for x, y in zip(list(a), list(b)):
        r = r + abs(x - y)
    return r


@harness("c16.spatial", extra=gen.EXTRA, float_mix="real", path_alarm=90.0, max_branches=20000)
def spatial(ctx):
    bg = env.import_generators()
    P = ctx.params
    cls, cands, N = P["cls"], P["cands"], P["N"]
    dim = P.get("dim", 2)
    pos = {"n": 0}
    drawn = {"cand": [], "voter": [], "loc": []}

    def fresh(tag):
        k = pos["n"]
        pos["n"] += 1
        return ctx.real(f"{tag}{k}")

    def cand_dist(**kw):
        v = [fresh("c") for _ in range(dim)]
        drawn["cand"].append(v)
        return v

    def voter_dist(loc=None, **kw):
        v = [fresh("v") for _ in range(dim)]
        drawn["voter"].append(v)
        drawn["loc"].append(loc)
        return v
    voter_dist.__name__ = "normal"
    try:
        if cls == "OneDimSpatial":
            g = bg.OneDimSpatial(candidates=cands)
            pp = g.generate_profile(N)
            npos = ctx.notes.get("_pos", 0)
            cpos = {c: [ctx.real(f"pos{i}")] for i, c in enumerate(cands)} if False else None
        elif cls == "Spatial":
            g = bg.Spatial(candidates=cands, voter_dist=voter_dist, voter_dist_kwargs={}, candidate_dist=cand_dist, candidate_dist_kwargs={}, distance=l1)
            drawn["cand"].clear(); drawn["voter"].clear(); drawn["loc"].clear()
            pp, cdict, vpos = g.generate_profile(N)
        else:
            g = bg.ClusteredSpatial(candidates=cands, voter_dist=voter_dist, voter_dist_kwargs={}, candidate_dist=cand_dist, candidate_dist_kwargs={}, distance=l1)
            drawn["cand"].clear(); drawn["voter"].clear(); drawn["loc"].clear()
            counts = dict(zip(cands, P["counts"]))
            pp, cdict, vpos = g.generate_profile_with_dict(counts)
    except PathBudget:
        raise
    except Exception as exc:
        from .c01 import where_raised
        ctx.fail(f"c16:spatial-raises:{type(exc).__name__}@{where_raised(exc)}", str(exc)[:200])
        return {"kind": "exc"}
    tot = 0
    rows = gen.profile_rows(pp)
    for rk, sc, w in rows:
        wi = gen.weight_int(ctx, w)
        tot += wi or 0
        if sorted(c for p in rk for c in p) != sorted(cands) or any(len(p) != 1 for p in rk):
            ctx.fail("c16:spatial-ranking-shape", f"{rk}")
            return {"kind": "bad"}
    n_expected = N if cls != "ClusteredSpatial" else sum(P["counts"])
    if tot != n_expected:
        ctx.fail("c16:spatial-total", f"{tot} ballots, expected {n_expected}")
        return {"kind": "bad"}
    if cls == "OneDimSpatial":
        # positions were drawn by the np.random.normal stub in order: candidates first, then voters
        cp = {c: [core.SF(z3.Real(f"pos{i}")) if ctx.sym else RealFraction(ctx.model[f"pos{i}"])] for i, c in enumerate(cands)}
        vps = [[core.SF(z3.Real(f"pos{len(cands) + j}")) if ctx.sym else RealFraction(ctx.model[f"pos{len(cands) + j}"])] for j in range(N)]
    else:
        cp = {c: [ex(x) for x in cdict[c]] for c in cands}
        vps = [[ex(x) for x in list(v)] for v in list(vpos)]
        if cls == "ClusteredSpatial":
            # each voter was drawn around its candidate's position, counts[c] voters per candidate
            want_loc = [c for c in cands for _ in range(dict(zip(cands, P["counts"]))[c])]
            locs = drawn["loc"]
            if len(locs) != len(want_loc):
                ctx.fail("c16:clustered-voter-count", f"{len(locs)} voters drawn")
                return {"kind": "bad"}
            for lc, c in zip(locs, want_loc):
                ctx.require(AND(*[eq(ex(a), b) for a, b in zip(list(lc), cp[c])]), "c16:clustered-voter-centre",
                            f"a voter of candidate {c}'s cluster was not drawn around that candidate's position")
    # every voter's ballot ranks the candidates by increasing distance: the multiset of generated ballots must be
    # explained by the voters, each voter's ranking being non-decreasing in distance
    def dist(v, c):
        return l1(v, cp[c])
    # decide each voter's distance order on this path and compare the multiset of rankings
    want = {}
    for v in vps:
        order = sorted(cands, key=lambda c: 0)  # placeholder, replaced below
        ds = {c: dist(v, c) for c in cands}
        # a ranking is acceptable for v iff consecutive distances are non-decreasing
        want.setdefault(id(v), ds)
    got = [([p[0] for p in rk], gen.weight_int(ctx, w)) for rk, sc, w in rows]
    flat = [r for r, wgt in got for _ in range(wgt)]
    # match voters to ballots: search a perfect matching in which each voter's distances are non-decreasing along its ballot
    vds = list(want.values())
    ok = _match(ctx, vds, flat)
    if ctx.canary == "farthest-first":
        ok = _match(ctx, [{c: core.sub(0, d) for c, d in ds.items()} for ds in vds], flat)
    if not ok:
        ctx.fail("c16:spatial-order", "some ballot does not rank the candidates by increasing distance from any voter's position")
    ctx.require(True, "c16:spatial-checked")
    return {"kind": "ok", "ballots": sorted(map(str, got))}


def _match(ctx, vds, ballots):
    """is there a bijection voters->ballots with every voter's distances valid-non-decreasing along its ballot?"""
    n = len(vds)
    fits = [[ctx.sym and ctx.ex.valid(AND(*[le(ds[a], ds[b]) for a, b in zip(r, r[1:])])) is None
             or (not ctx.sym and all(ds[a] <= ds[b] for a, b in zip(r, r[1:]))) for r in ballots] for ds in vds]
    for perm in itertools.permutations(range(n)):
        if all(fits[i][perm[i]] for i in range(n)):
            return True
    return False


def tasks(tier, seed):
    q = tier == "quick"
    out = []
    S1 = {"X": ["x0", "x1"], "Y": ["y0"]}
    S2 = {"X": ["x0", "x1"], "Y": ["y0", "y1"]}
    ONLY_X = {"X": 1.0, "Y": 0.0}
    def t(cls, cf, slates, N, **kw):
        p = {"cls": cls, "slates": slates, "N": N, "bloc_voter_prop": kw.pop("props", ONLY_X if len(slates) == 2 else None)}
        for k in ("method", "ballot_length", "num_votes", "apportion_fixed", "coh_key_order"):
            if k in kw:
                p[k] = kw.pop(k)
        extra_task = {k: kw.pop(k) for k in ("budget_s", "max_paths") if k in kw}
        d = {"kind": "call", "module": "props.c16", "func": "run_law", "harness": "c16.sample", "closed_form": cf, "law_label": cf, "params": p,
             "sig_keys": ["cls", "method"], "name": f"law {cls} N={N} { {k: len(v) for k, v in slates.items()} } {p.get('apportion_fixed', '')}", "weight": 10 * N}
        d.update(extra_task)
        d.update(kw)
        return d
    for N in (1, 2):
        out.append(t("name_PlackettLuce", "name_pl", S1, N, apportion_fixed=[N, 0]))
        out.append(t("short_name_PlackettLuce", "name_pl", S1, N, ballot_length=2, apportion_fixed=[N, 0]))
        out.append(t("name_Cumulative", "name_cumulative", S1, N, num_votes=2, apportion_fixed=[N, 0]))
        out.append(t("slate_PlackettLuce", "slate_pl", S1, N, apportion_fixed=[N, 0]))
        out.append(t("name_BradleyTerry", "name_bt", S1, N, apportion_fixed=[N, 0]))
        out.append(t("slate_BradleyTerry", "slate_bt", S1, N, apportion_fixed=[N, 0]))
        out.append(t("ImpartialCulture", "impartial_culture", {"X": ["a", "b", "c"] if N == 1 else ["a", "b"]}, N))
    # cohesion dictionaries keyed in another order than the interval dictionaries
    for cls, cf, kw in (("name_PlackettLuce", "name_pl", {}), ("name_Cumulative", "name_cumulative", {"num_votes": 2}), ("slate_PlackettLuce", "slate_pl", {}),
                        ("name_BradleyTerry", "name_bt", {}), ("slate_BradleyTerry", "slate_bt", {})):
        out.append(t(cls, cf, S1, 1, apportion_fixed=[1, 0], coh_key_order="reversed", **kw))
        out[-1]["name"] += " cohesion keys reversed"
    # three slates: a slate can be used up while two others still have candidates (renormalisation)
    S3 = {"X": ["x0", "x1"], "Y": ["y0"], "Z": ["z0"]}
    P3 = {"X": 1.0, "Y": 0.0, "Z": 0.0}
    out.append(t("slate_PlackettLuce", "slate_pl", S3, 1, apportion_fixed=[1, 0, 0], props=P3, budget_s=900))
    if not q:
        out.append(t("slate_PlackettLuce", "slate_pl", {"X": ["x0"], "Y": ["y0", "y1"], "Z": ["z0", "z1"]}, 1, apportion_fixed=[1, 0, 0], props=P3, budget_s=2400))
        out.append(t("name_PlackettLuce", "name_pl", S3, 1, apportion_fixed=[1, 0, 0], props=P3, budget_s=1200))
    for split in ([1, 0, 0, 0], [0, 1, 0, 0], [2, 0, 0, 0], [1, 1, 0, 0], [0, 2, 0, 0]):
        out.append(t("AlternatingCrossover", "alternating_crossover", S1, sum(split), apportion_fixed=split, props={"X": 1.0, "Y": 0.0}))
    if not q:
        out.append(t("slate_PlackettLuce", "slate_pl", S2, 1, apportion_fixed=[1, 0]))
        out.append(t("slate_BradleyTerry", "slate_bt", S2, 1, apportion_fixed=[1, 0]))
        out.append(t("name_PlackettLuce", "name_pl", S2, 1, apportion_fixed=[1, 0]))
        out.append(t("AlternatingCrossover", "alternating_crossover", S2, 2, apportion_fixed=[1, 1, 0, 0]))
        out.append(t("name_PlackettLuce", "name_pl", S1, 3, apportion_fixed=[3, 0]))
    def sp(cls, cands, N, **kw):
        d = {"harness": "c16.spatial", "params": {"cls": cls, "cands": cands, "N": N, **{k: v for k, v in kw.items() if k in ("counts", "dim")}},
             "sig_keys": ["cls"], "name": f"spatial {cls} {cands} N={N} {kw.get('counts', '')}", "xval_stride": 3, "weight": 20, "split": kw.get("split", 3)}
        if "canary" in kw:
            d.update(canary=kw["canary"], stop_on_violation=True, name="canary:" + kw["canary"], xval_stride=0, split=0)
        return d
    out.append(sp("OneDimSpatial", ["a", "b", "c"], 1))
    out.append(sp("OneDimSpatial", ["a", "b"], 2))
    out.append(sp("Spatial", ["a", "b", "c"], 1, dim=1))
    out.append(sp("Spatial", ["a", "b"], 2, dim=2, split=4))
    out.append(sp("ClusteredSpatial", ["a", "b"], 2, counts=[1, 1], dim=1))
    out.append(sp("ClusteredSpatial", ["a", "b", "c"], 1, counts=[0, 1, 0], dim=2))
    if not q:
        out.append(sp("Spatial", ["a", "b", "c"], 2, dim=1, split=6))
        out.append(sp("ClusteredSpatial", ["a", "b"], 3, counts=[2, 1], dim=1, split=5))
    for sizes, L in (((1, 1), 2), ((2, 1), 3)) + (() if q else (((2, 2), 3), ((1, 2), 3))):
        out.append({"kind": "call", "module": "props.c16", "func": "run_mcmc_slate", "harness": "c16.mcmc_slate", "closed_form": "slate_bt_mcmc", "law_label": "slate_bt_mcmc",
                    "params": {"sizes": sizes, "L": L}, "sig_keys": [], "replay_harness": "c16.mcmc_slate_replay", "name": f"slate-BT MCMC kernel sizes={sizes} chain={L}", "weight": 15})
    for cands in (["a", "b"], ["a", "b", "c"]):
        out.append({"kind": "call", "module": "props.c16", "func": "run_mcmc_name", "harness": "c16.mcmc_name", "closed_form": "name_bt_mcmc", "law_label": "name_bt_mcmc",
                    "params": {"cands": cands}, "sig_keys": ["cands"], "name": f"name-BT MCMC kernel {cands}", "weight": 15})
    out.append({"kind": "call", "module": "props.c16", "func": "run_mcmc_slate", "harness": "c16.mcmc_slate", "closed_form": "slate_bt_mcmc", "law_label": "slate_bt_mcmc",
                "params": {"sizes": (1, 1), "L": 2}, "canary": "balance-with-uniform-pi", "name": "canary:balance-with-uniform-pi"})
    out.append(sp("OneDimSpatial", ["a", "b"], 1, canary="farthest-first"))
    out.append(t("name_PlackettLuce", "name_pl", S1, 1, apportion_fixed=[1, 0], canary="with-replacement", name="canary:name-pl-law-doubled"))
    return out


META = {
    "explanation": "generators run with symbolic supports/cohesion (exact real arithmetic) and probabilistic random stubs; per parameter cell the sum of path probabilities of every generated ballot multiset must equal the documented law (Plackett-Luce by successive sampling, draws with replacement, cohesion-weighted slate patterns, Bradley-Terry tables, crossover split, uniform IC) as a rational identity decided by z3 after normalisation; names/probabilities alignment of every np.random.choice call; spatial generators: for every stream each ballot ranks candidates by increasing distance from a voter's position (validity queries over symbolic positions)",
    "assumptions": ["floats abstracted as reals", "A-RND", "A-APP (split fixed per task)", "N <= 2 ballots (the second ballot exposes state carried between draws), slates of size <= 2",
                    "Dirichlet(alpha >= 1e19) is the point mass at uniform", "spatial classes driven with stub distributions and an L1 harness distance (np.linalg.norm is compiled)",
                    "MCMC samplers: one-step kernels extracted from chains of length <= 3 (slate-BT, seed fixed in the code) / from every seed ballot (name-BT); detailed balance with the C15 definitions implies stationarity"],
}
