"""Probability laws as rational identities: cell decomposition + path-probability sums.
A *law task* explores a harness whose random stubs multiply ctx.prob; because parameter comparisons and
random draws interleave, the parameter space is first cut into cells (AllSAT over the parameter-only
branch atoms), each cell is asserted up front so that only random forks remain, and on every cell z3
must refute  law(outcome) != closed_form(outcome)  for every outcome, and  sum(law) != 1."""
from __future__ import annotations

import json
import time

import z3

from sx import core, engine
from sx.core import lift
from sx.ratnorm import Normaliser


def blank(task):
    return {"task": task, "paths": 0, "decisions": 0, "queries": 0, "solver_s": 0.0, "unknown": 0, "violations": [], "violation_count": 0,
            "inconclusive": [], "harness_errors": [], "xval": 0, "xval_mismatch": [], "asserted": 0, "exhausted": True, "samples": [],
            "functions": {}, "patched": [], "extra": {"cells": 0, "law_identities": 0}}


def sample_points(sc, cvars, n=4):
    """a few distinct rational models of the cell (for refuting false identities by exact evaluation)"""
    pts = []
    sc.push()
    try:
        for _ in range(n):
            if core.guarded_check(sc, seconds=10) != z3.sat:
                break
            pm = sc.model()
            pt = {}
            for n_, v_ in cvars.items():
                val = pm.eval(v_, model_completion=True)
                if not z3.is_rational_value(val):
                    pt = None
                    break
                pt[n_] = val.as_fraction()
            if pt is None:
                break
            pts.append((pm, pt))
            # ask for a different point next time
            diffs = [v_ != pm.eval(v_, model_completion=True) for v_ in cvars.values()]
            if not diffs:
                break
            sc.add(z3.And(*diffs) if len(pts) % 2 else z3.Or(*diffs))
    finally:
        sc.pop()
    return pts


class Excluded(Exception):
    """closed form declines this cell (documented fallback outside the stated law)"""


def run_law(task, closed_form, input_constraints, max_cells=400, outcome_key=None, cell_hook=None, checker=None):
    res = _run_law(task, closed_form, input_constraints, max_cells, outcome_key, cell_hook, checker)
    if (res["inconclusive"] or res["harness_errors"]) and not res["violation_count"] and checker is None and not task.get("canary"):
        # the symbolic route could not conclude (typically a change made the parameter atoms non-linear).  It may
        # then not say "held" -- but a concrete witness is still worth looking for: enumerate the real code's law
        # at a few parameter points and compare with the closed form
        try:
            concrete_witness_search(task, closed_form, input_constraints, res)
        except core.HarnessError as e:
            res["harness_errors"].append(repr(e))
    return res


def concrete_witness_search(task, closed_form, input_constraints, res, npoints=6):
    from fractions import Fraction
    hname, params = task["harness"], task["params"]
    vars_ = {}
    for ctx, ex, outcome, status in engine.explore_raw(hname, params, max_paths=1):
        vars_.update(ctx.vars)
        break
    s = z3.SolverFor("QF_NRA")
    s.add(input_constraints(vars_))
    # interior points first (strict versions of the bounds), then whatever the solver offers
    for nm, v in vars_.items():
        s.add(v > 0)
    pts = []
    # awkward non-integer points first (a change that rounds, truncates or reorders its inputs is invisible on
    # the small integers a solver likes to offer), then whatever the solver offers
    awkward = [Fraction(3, 2), Fraction(7, 3), Fraction(5, 4), Fraction(11, 5), Fraction(2, 3), Fraction(13, 6), Fraction(9, 7)]
    names = sorted(vars_)
    for rot in range(3):
        cand = {n: awkward[(i + rot * 2) % len(awkward)] for i, n in enumerate(names)}
        if not any(vars_[n].is_int() for n in names) and core.guarded_check(
                s, *[vars_[n] == z3.Q(v.numerator, v.denominator) for n, v in cand.items()], seconds=10) == z3.sat:
            pts.append((None, cand))
    pts += sample_points(s, vars_, n=npoints)
    okey = lambda o: json.dumps(o, sort_keys=True)
    for pm, pt in pts:
        mdl = {n: str(v) for n, v in pt.items()}
        runs = enumerate_conc(hname, params, mdl)
        claw, couts = {}, {}
        skip = False
        for o, p in runs:
            if o is None or o.get("kind") == "excluded":
                skip = True
                break
            k = okey(o)
            couts[k] = o
            claw[k] = claw.get(k, Fraction(0)) + Fraction(p if p is not None else 1)
        if skip:
            continue
        try:
            cwant = closed_form({n: Fraction(v) for n, v in mdl.items()}, couts, params, None)
        except Excluded:
            continue
        bad = [k for k in set(claw) | set(cwant) if abs(float(claw.get(k, 0)) - float(cwant.get(k, 0))) > 1e-9]
        res["extra"]["concrete_points_tried"] = res["extra"].get("concrete_points_tried", 0) + 1
        if bad:
            res["violation_count"] += 1
            res["violations"].append({"label": "law:" + task.get("law_label", "distribution"), "detail": f"outcome {bad[0]}: enumerated law differs from the closed form (found by concrete search after an inconclusive symbolic run)",
                                      "model": mdl, "script": [], "path": 0, "harness": task.get("replay_harness", "laws.replay"),
                                      "params": (dict(params) if task.get("replay_harness") else {"inner": hname, "inner_params": params, "closed_form": task["closed_form"]})})
            return


def _run_law(task, closed_form, input_constraints, max_cells=400, outcome_key=None, cell_hook=None, checker=None):
    """closed_form(ctx_like_vars, outcome_key) -> term ; input_constraints(vars) -> [z3 conds]"""
    t0 = time.time()
    deadline = t0 + task.get("budget_s", 600)
    res = blank(task)
    hname, params, canary = task["harness"], task["params"], task.get("canary")
    okey = outcome_key or (lambda o: json.dumps(o, sort_keys=True))
    # phase 1: unconstrained exploration, collect parameter atoms
    atoms = {}
    vars_ = {}
    def law_pre(ctx):
        ctx.law_mode = True

    # which library functions does this harness enter (one recorded path)
    try:
        from sx import env as _env
        rec = _env.FuncRecorder()
        with rec:
            for _ in engine.explore_raw(hname, params, pre=law_pre, max_paths=1):
                break
        res["functions"] = rec.result()
    except BaseException:
        pass

    for ctx, ex, outcome, status in engine.explore_raw(hname, params, pre=law_pre, canary=None, deadline=deadline, max_paths=task.get("max_paths", 20000)):
        res["paths"] += 1
        res["queries"] += ex.queries
        res["solver_s"] += ex.solver_time
        res["decisions"] += len(ex.script)
        vars_.update(ctx.vars)
        if status != "ok":
            (res["harness_errors"] if status.startswith("harness") else res["inconclusive"]).append(status)
            continue
        for c in ex.log:
            atoms[c.get_id()] = c
    if res["harness_errors"] or res["inconclusive"]:
        return res
    base = input_constraints(vars_)
    # drop atoms that the input constraints already decide (always-true positivity tests of products etc.)
    sf = z3.SolverFor("QF_NRA")
    sf.set("timeout", 2000)
    sf.add(base)
    kept = []
    for a in atoms.values():
        r1 = sf.check(a)
        r2 = sf.check(z3.Not(a))
        res["queries"] += 2
        if r1 == z3.sat and r2 == z3.sat:
            kept.append(a)
        elif z3.unknown in (r1, r2):
            kept.append(a)
    atoms = kept
    # phase 2: cells = satisfiable sign assignments of the atoms
    s = z3.SolverFor("QF_NRA")
    s.set("timeout", 20000)
    s.add(base)
    cells = []
    while True:
        r = s.check()
        res["queries"] += 1
        if r == z3.unknown:
            res["inconclusive"].append("cell enumeration unknown")
            return res
        if r == z3.unsat:
            break
        m = s.model()
        cell = [a if z3.is_true(m.eval(a, model_completion=True)) else z3.Not(a) for a in atoms]
        cells.append(cell)
        s.add(z3.Not(z3.And(cell)) if cell else z3.BoolVal(False))
        if len(cells) > max_cells:
            res["inconclusive"].append(f"more than {max_cells} cells")
            return res
    res["extra"]["cells"] = len(cells)
    res["extra"]["atoms"] = len(atoms)
    # phase 3: per cell, only random forks remain
    for cell in cells:
        law = {}
        outcomes = {}
        new_atoms = False
        def pre(ctx, cell=cell):
            ctx.law_mode = True
            for c in cell:
                ctx.ex.assume(c)
        nz = Normaliser()
        cvars = {}
        for ctx, ex, outcome, status in engine.explore_raw(hname, params, pre=pre, canary=canary, deadline=deadline, max_paths=task.get("max_paths", 20000)):
            res["paths"] += 1
            res["queries"] += ex.queries
            res["solver_s"] += ex.solver_time
            res["decisions"] += len(ex.script)
            cvars.update(ctx.vars)
            if status != "ok":
                (res["harness_errors"] if status.startswith("harness") else res["inconclusive"]).append(status)
                law = None  # an incomplete exploration gives partial sums: never compare those
                break
            if any(d[0] == "b" and d[2] == 2 for d in ex.decisions):
                new_atoms = True
            if outcome is None or outcome.get("kind") == "excluded":
                res["extra"]["excluded_paths"] = res["extra"].get("excluded_paths", 0) + 1
                law = None
                break
            k = okey(outcome)
            outcomes[k] = outcome
            p = lift(ctx.prob if ctx.prob is not None else 1)
            law[k] = p if k not in law else law[k] + p
            res["violations"] += [v.to_json() for v in ctx.violations][:2]
            res["violation_count"] += len(ctx.violations)
            res["asserted"] += ctx.asserted
        if new_atoms:
            res["inconclusive"].append("a parameter comparison appeared inside a cell (cell split incomplete)")
            continue
        if law is None:
            continue
        viol_before = res["violation_count"]
        sc = z3.SolverFor("QF_NRA")
        sc.set("timeout", 30000)
        sc.add(base)
        sc.add(cell)
        if cell_hook is not None:
            cell_hook["solver"] = sc
        try:
            want = closed_form(cvars, outcomes, params, canary) if checker is None else {}
        except Excluded:
            res["extra"]["excluded_cells"] = res["extra"].get("excluded_cells", 0) + 1
            continue
        finally:
            if cell_hook is not None:
                cell_hook["solver"] = None
        if checker is not None:
            checks = checker(law, outcomes, cvars, params, canary, sc)
        else:
            checks = [(k, law.get(k, z3.RealVal(0)), want.get(k, z3.RealVal(0))) for k in sorted(set(law) | set(want))]
        checks.append(("<total>", sum(law.values(), z3.RealVal(0)), z3.RealVal(1)))
        point = None
        for k, got, exp in checks:
            poly = nz.diff_poly(lift(got), lift(exp))
            res["asserted"] += 1
            res["extra"]["law_identities"] += 1
            mdl = None
            if poly.is_zero():
                # the identity normalises to 0 == 0: z3's answer to `0 != 0` is unsat
                res["queries"] += 1
                res["extra"]["identities_trivial_after_normalisation"] = res["extra"].get("identities_trivial_after_normalisation", 0) + 1
                continue
            # a non-zero polynomial: first try the cell's own model as witness (exact evaluation), then ask z3
            if point is None:
                point = sample_points(sc, cvars)
            r = None
            if point and not nz.atoms:
                for pm, pt in point:
                    try:
                        dens_ok = all(nz.F[kk].evaluate(pt) != 0 for kk in (set(nz.nd(lift(got))[1]) | set(nz.nd(lift(exp))[1])))
                        if dens_ok and poly.evaluate(pt) != 0:
                            r = z3.sat
                            mdl = pm
                            break
                    except KeyError:
                        break
            if r is None:
                q = nz.to_z3(poly) != 0
                tq = time.time()
                sc.set("timeout", 15000)
                r = core.guarded_check(sc, q, *nz.denominators_nonzero(lift(got), lift(exp)), seconds=20)
                res["solver_s"] += time.time() - tq
                res["queries"] += 1
                if r == z3.sat:
                    mdl = sc.model()
            if r == z3.unknown:
                res["inconclusive"].append("law identity unknown")
            elif r == z3.sat:
                res["violation_count"] += 1
                if len(res["violations"]) < 3:
                    res["violations"].append({"label": "law:" + task.get("law_label", "distribution") + (":total" if k == "<total>" else ""),
                                              "detail": f"outcome {k}: path-probability sum differs from the closed form", "model": core.model_to_dict(mdl, cvars),
                                              "script": [], "path": 0, "outcome": k, "harness": task.get("replay_harness", "laws.replay"),
                                              "params": (dict(params) if task.get("replay_harness") else
                                                         {"inner": hname, "inner_params": params, "closed_form": task["closed_form"]})})
        # cross-validate the engine on this cell: enumerate the real code's random outcomes concretely at a
        # model of the cell and compare the enumerated law with the closed form
        cell_clean = res["violation_count"] == viol_before
        if res["xval"] < task.get("xval_cells", int(__import__("os").environ.get("SX_XVAL_CELLS", "1000"))) and law and not canary and cell_clean and checker is None:
            try:
                if sc.check() == z3.sat:
                    mdl = core.model_to_dict(sc.model(), cvars)
                    if not any(str(v).startswith(("alg:", "?")) for v in mdl.values()):
                        from fractions import Fraction
                        runs = enumerate_conc(hname, params, mdl)
                        claw, couts = {}, {}
                        for o, p in runs:
                            k = okey(o)
                            couts[k] = o
                            claw[k] = claw.get(k, Fraction(0)) + Fraction(p if p is not None else 1)
                        # outcomes that only exist through double rounding (probability ~1e-16) are not part of the law
                        tiny = [k for k, v in claw.items() if float(v) < 1e-9 and k not in law]
                        for k in tiny:
                            claw.pop(k)
                            couts.pop(k)
                        cwant = closed_form({n: Fraction(v) for n, v in mdl.items()}, couts, params, None)
                        bad = [k for k in set(claw) | set(cwant)
                               if abs(float(claw.get(k, 0)) - float(cwant.get(k, 0))) > 1e-9]
                        if bad or not set(claw) <= set(law) or any(float(claw.get(k, 0)) > 1e-9 for k in law if k not in claw and False):
                            res["xval_mismatch"].append({"model": mdl, "outcomes": bad[:3], "sym_outcomes": sorted(law)[:5], "conc_outcomes": sorted(claw)[:5]})
                        res["xval"] += 1
            except core.HarnessError as e:
                res["harness_errors"].append(repr(e))
        if res["violation_count"] and task.get("stop_on_violation", True):
            break
        if len(res["samples"]) < 2 and law:
            k0 = sorted(law)[0]
            res["samples"].append({"cell_atoms": [str(c) for c in cell][:6], "outcome": outcomes.get(k0), "law": str(z3.simplify(lift(law[k0])))[:300]})
    res["wall_s"] = time.time() - t0
    return res


def enumerate_conc(hname, params, model, max_runs=100000):
    """all random outcomes of a harness at concrete parameter values: [(outcome, probability)]"""
    from sx import env
    from fractions import Fraction
    h = engine.resolve(hname)
    env.import_votekit()
    out = []
    script = []
    world = env.World()
    import io, contextlib
    for _ in range(max_runs):
        ctx = core.Ctx("conc", model=model, script=script, params=params)
        ctx.lenient = True
        ctx.law_mode = True
        ctx.prob = None
        world.enter(ctx, extra=h.meta.get("extra"))
        try:
            with contextlib.redirect_stdout(io.StringIO()):
                o = h(ctx)
        finally:
            world.restore()
        out.append((o, ctx.prob))
        tr = ctx.trace_n
        # next script: increment the last position that can still grow
        nxt = None
        for i in range(len(tr) - 1, -1, -1):
            n, v = tr[i]
            if v + 1 < n:
                nxt = [x[1] for x in tr[:i]] + [v + 1]
                break
        if nxt is None:
            return out
        script = nxt
    raise core.HarnessError("too many concrete random outcomes")


CLOSED_FORMS = {}


def closed_form(name):
    def deco(f):
        CLOSED_FORMS[name] = f
        return f
    return deco


@engine.harness("laws.replay")
def replay(ctx):
    """conc only: recompute the law at the model's parameter values by enumerating every random outcome
    of the real code, and compare with the closed form (relative tolerance 1e-9: the real code uses floats)"""
    import importlib
    from fractions import Fraction
    if ctx.sym:
        ctx.require(True, "laws:noop")
        return {}
    P = ctx.params
    importlib.import_module("props." + P["inner"].split(".")[0])
    runs = enumerate_conc(P["inner"], P["inner_params"], ctx.model)
    law, outcomes = {}, {}
    excluded_mass = Fraction(0)
    for o, p in runs:
        if o is None or o.get("kind") == "excluded":
            excluded_mass += Fraction(p if p is not None else 1)
            continue
        k = json.dumps(o, sort_keys=True)
        outcomes[k] = o
        law[k] = law.get(k, Fraction(0)) + Fraction(p if p is not None else 1)
    if float(excluded_mass) > 1e-9:
        return {"kind": "excluded"}
    vals = {n: Fraction(v) for n, v in ctx.model.items()}
    want = CLOSED_FORMS[P["closed_form"]](vals, outcomes, P["inner_params"], None)
    for k in sorted(set(law) | set(want)):
        a, b = float(law.get(k, 0)), float(Fraction(want.get(k, 0)) if not isinstance(want.get(k, 0), float) else want.get(k, 0))
        if abs(a - b) > 1e-9 * max(1.0, abs(a), abs(b)):
            raise core.ConcViolation("law:" + P.get("law_label", "distribution"), f"outcome {k}: enumerated probability {a} vs closed form {b}")
    tot = float(sum(law.values()))
    if abs(tot - 1) > 1e-9:
        raise core.ConcViolation("law:total", f"probabilities sum to {tot}")
    return {"kind": "law-ok", "outcomes": len(law)}


# ---------------------------------------------------------------------------
# building blocks for law checks that need several harness runs per cell (Markov kernels)
# ---------------------------------------------------------------------------
def collect_atoms(res, hname, params):
    atoms, vars_ = {}, {}

    def law_pre(ctx):
        ctx.law_mode = True

    for ctx, ex, outcome, status in engine.explore_raw(hname, params, pre=law_pre):
        res["paths"] += 1
        res["queries"] += ex.queries
        res["solver_s"] += ex.solver_time
        res["decisions"] += len(ex.script)
        vars_.update(ctx.vars)
        if status != "ok":
            (res["harness_errors"] if status.startswith("harness") else res["inconclusive"]).append(status)
            continue
        for c in ex.log:
            atoms[c.get_id()] = c
    return atoms, vars_


def enumerate_cells(res, atoms, base, max_cells=400):
    sf = z3.SolverFor("QF_NRA")
    sf.set("timeout", 2000)
    sf.add(base)
    kept = []
    for a in atoms:
        r1, r2 = sf.check(a), sf.check(z3.Not(a))
        res["queries"] += 2
        if not (r1 == z3.unsat or r2 == z3.unsat):
            kept.append(a)
    s = z3.SolverFor("QF_NRA")
    s.set("timeout", 20000)
    s.add(base)
    cells = []
    while True:
        r = s.check()
        res["queries"] += 1
        if r == z3.unknown:
            res["inconclusive"].append("cell enumeration unknown")
            return None
        if r == z3.unsat:
            return cells
        m = s.model()
        cell = [a if z3.is_true(m.eval(a, model_completion=True)) else z3.Not(a) for a in kept]
        cells.append(cell)
        s.add(z3.Not(z3.And(cell)) if cell else z3.BoolVal(False))
        if len(cells) > max_cells:
            res["inconclusive"].append(f"more than {max_cells} cells")
            return None


def cell_law(res, hname, params, cell, okey=None):
    """law of the harness outcome on one cell: ({key: prob term}, {key: outcome}, vars) or None if excluded"""
    okey = okey or (lambda o: json.dumps(o, sort_keys=True))
    law, outcomes, cvars = {}, {}, {}

    def pre(ctx):
        ctx.law_mode = True
        for c in cell:
            ctx.ex.assume(c)

    for ctx, ex, outcome, status in engine.explore_raw(hname, params, pre=pre):
        res["paths"] += 1
        res["queries"] += ex.queries
        res["solver_s"] += ex.solver_time
        res["decisions"] += len(ex.script)
        cvars.update(ctx.vars)
        if status != "ok":
            (res["harness_errors"] if status.startswith("harness") else res["inconclusive"]).append(status)
            return None  # partial sums must never be compared
        if any(d[0] == "b" and d[2] == 2 for d in ex.decisions):
            res["inconclusive"].append("a parameter comparison appeared inside a cell (cell split incomplete)")
        if outcome is None or outcome.get("kind") == "excluded":
            return None
        k = okey(outcome)
        outcomes[k] = outcome
        p = lift(ctx.prob if ctx.prob is not None else 1)
        law[k] = p if k not in law else law[k] + p
    return law, outcomes, cvars
