"""C14 -- ballot generators return well-formed profiles of exactly the requested size."""
from __future__ import annotations

import itertools
import os
from fractions import Fraction as RealFraction

from sx import core, env
from sx.core import PathBudget, eq, ne, le, lt, ge, gt, AND, OR, NOT, add, sub, mul, div, num
from sx.engine import harness
from . import common as C, gen
from .gen import ex

ROOT = os.path.dirname(os.path.dirname(os.path.abspath(__file__)))
CAMB = os.path.join(ROOT, "build", "c14", "cambridge_synthetic.p")

COMPLETE = {"ImpartialCulture", "ImpartialAnonymousCulture", "BallotSimplex", "name_PlackettLuce", "name_BradleyTerry",
            "slate_PlackettLuce", "slate_BradleyTerry", "AlternatingCrossover", "OneDimSpatial", "Spatial", "ClusteredSpatial"}
BLOC_MODELS = {"name_PlackettLuce", "short_name_PlackettLuce", "name_BradleyTerry", "slate_PlackettLuce", "slate_BradleyTerry",
               "AlternatingCrossover", "CambridgeSampler", "name_Cumulative"}


def zero_support(ctx, info, cls):
    """candidates with zero support, per bloc, by the statement's reading of the parameters"""
    out = {}
    if "supports" not in info:
        return out
    for b in info["blocs"]:
        z = set()
        for s in info["blocs"]:
            share_zero = cls.startswith(("name_", "short_name_")) and ctx.truth(eq(ex(info["cohesion"][b][s]), 0))
            for c, v in info["supports"][b][s].items():
                if share_zero or ctx.truth(eq(ex(v), 0)):
                    z.add(c)
        out[b] = z
    return out


def check_profile(ctx, pp, info, P, n_expected, bloc=None, zeros=None):
    cls = P["cls"]
    cands = info["cands"]
    tot = 0
    for rk, sc, w in gen.profile_rows(pp):
        wi = gen.weight_int(ctx, w)
        if wi is None or wi <= 0:
            ctx.fail("c14:weight-not-positive-integer", f"{core.show(w)}")
            return False
        tot += wi
        listed = [c for p in rk for c in p]
        if any(c not in cands for c in listed) or len(listed) != len(set(listed)):
            ctx.fail("c14:ranking-candidates", f"{rk}")
            return False
        if cls == "name_Cumulative":
            if rk or not sc:
                ctx.fail("c14:cumulative-ballot-shape", f"{rk} {sc}")
                return False
            pts = sum(RealFraction(v) for _, v in sc)
            if pts != P["num_votes"] or any(RealFraction(v) <= 0 for _, v in sc):
                ctx.fail("c14:cumulative-points", f"{sc} but num_votes={P['num_votes']}")
                return False
            if zeros is not None and bloc is not None and any(c in zeros.get(bloc, ()) for c, _ in sc):
                ctx.fail("c14:points-for-unsupported-candidate", f"{sc}")
                return False
            continue
        if not rk:
            ctx.fail("c14:empty-ranking")
            return False
        z = zeros.get(bloc, set()) if (zeros is not None and bloc is not None) else None
        if cls == "short_name_PlackettLuce":
            if len(listed) != P["ballot_length"]:
                ctx.fail("c14:short-ballot-length", f"{rk} lists {len(listed)} candidates, ballot_length={P['ballot_length']}")
                return False
        if cls == "AlternatingCrossover":
            # AC ranks the supported candidates of both slates; candidates without support are left out
            want = sorted(c for c in cands if z is None or c not in z)
            if z is not None and sorted(listed) != want:
                ctx.fail("c14:incomplete-ranking", f"{rk} does not list every supported candidate {want}")
                return False
        elif cls in COMPLETE and sorted(listed) != sorted(cands):
            ctx.fail("c14:incomplete-ranking", f"{rk} does not list every candidate {cands}")
            return False
        if z is not None and cls != "CambridgeSampler":
            head = rk[:-1] if any(c in z for c in rk[-1]) else rk
            if any(len(p) != 1 for p in head) or any(c in z for p in head for c in p):
                ctx.fail("c14:zero-support-candidate-ranked", f"{rk} with zero-support {sorted(z)}")
                return False
            tail = rk[len(head):]
            if tail and (not set(tail[0]) <= z):
                ctx.fail("c14:tied-tail-not-zero-support", f"{rk} with zero-support {sorted(z)}")
                return False
            if cls in COMPLETE and cls != "AlternatingCrossover" and tail and set(tail[0]) != z:
                ctx.fail("c14:zero-support-tail-incomplete", f"{rk} with zero-support {sorted(z)}")
                return False
    if tot != n_expected:
        ctx.fail("c14:total-weight", f"profile has total weight {tot}, expected {n_expected}")
        return False
    return True


def rows_map(pp):
    d = {}
    for rk, sc, w in gen.profile_rows(pp):
        d[(rk, sc)] = d.get((rk, sc), 0) + w
    return d


@harness("c14.generate", extra=gen.EXTRA, float_mix="real", path_alarm=90.0, max_branches=20000)
def generate(ctx):
    P = ctx.params
    cls, N = P["cls"], P["N"]
    if cls == "CambridgeSampler":
        if not os.path.exists(CAMB):
            gen.synthetic_cambridge(CAMB)
        P = dict(P, path=CAMB)
    try:
        g, info = gen.build_generator(ctx, P)
    except Exception as exc:
        ctx.fail(f"c14:constructor-raises:{type(exc).__name__}", str(exc)[:200])
        return {"kind": "exc"}
    zeros = zero_support(ctx, info, cls)
    by_bloc = P.get("by_bloc", False) and cls in BLOC_MODELS
    try:
        if P.get("method") == "MCMC":
            res = g.generate_profile_MCMC(N, by_bloc=by_bloc) if cls == "name_BradleyTerry" else g.generate_profile(N, by_bloc=by_bloc, deterministic=False)
        else:
            res = g.generate_profile(N, by_bloc=by_bloc)
    except PathBudget:
        raise
    except Exception as exc:
        from .c01 import where_raised
        ctx.fail(f"c14:generate-raises:{type(exc).__name__}@{where_raised(exc)}", str(exc)[:200])
        return {"kind": "exc"}
    pp_by = None
    if by_bloc:
        if not (isinstance(res, tuple) and len(res) == 2 and isinstance(res[0], dict)):
            ctx.fail("c14:by-bloc-return-shape")
            return {"kind": "bad"}
        pp_by, pp = res
    else:
        pp = res
    calls = ctx.notes.get("apportion_calls", [])
    if cls in BLOC_MODELS:
        if len(calls) != 1:
            ctx.fail("c14:apportionment-calls", f"{len(calls)} calls")
            return {"kind": "bad"}
        call = calls[0]
        blocs = info["blocs"]
        if cls in ("AlternatingCrossover", "CambridgeSampler"):
            want = []
            for b in blocs:
                cb = ex(info["cohesion"][b][b])
                pb = ex(info["props"][b])
                want += [mul(cb, pb), mul(sub(1, cb), pb)]
        else:
            want = [ex(info["props"][b]) for b in blocs]
        if call["method"] != "huntington" or call["n"] != N or len(call["props"]) != len(want):
            ctx.fail("c14:apportionment-call", f"{call['method']} n={call['n']} {len(call['props'])} proportions")
            return {"kind": "bad"}
        cond = AND(*[eq(ex(a), b) for a, b in zip(call["props"], want)])
        if ctx.canary == "proportions-reversed":
            cond = AND(*[eq(ex(a), b) for a, b in zip(call["props"], want[::-1])])
        ctx.require(cond, "c14:apportionment-proportions", "apportionment was not asked for the statement's proportion vector in bloc order")
        sizes = {}
        if cls in ("AlternatingCrossover", "CambridgeSampler"):
            for i, b in enumerate(blocs):
                sizes[b] = call["result"][2 * i] + call["result"][2 * i + 1]
        else:
            sizes = dict(zip(blocs, call["result"]))
    ok = check_profile(ctx, pp, info, P, N, bloc=(info["blocs"][0] if len(info.get("blocs", [])) == 1 else None), zeros=zeros if len(info.get("blocs", [])) == 1 else None)
    if ok and pp_by is not None:
        agg = {}
        for b in info["blocs"]:
            if b not in pp_by:
                ctx.fail("c14:bloc-missing", b)
                return {"kind": "bad"}
            if not check_profile(ctx, pp_by[b], info, P, sizes[b], bloc=b, zeros=zeros):
                return {"kind": "bad"}
            for k, w in rows_map(pp_by[b]).items():
                agg[k] = agg.get(k, 0) + w
        got = rows_map(pp)
        if set(got) != set(agg) or any(gen.weight_int(ctx, got[k]) != gen.weight_int(ctx, agg[k]) for k in got):
            ctx.fail("c14:aggregate-differs-from-blocs", "per-bloc profiles do not add up to the aggregate profile")
    ctx.require(True, "c14:profile-checked")
    return {"kind": "ok", "ballots": sorted((str(k), str(gen.weight_int(ctx, w))) for k, w in rows_map(pp).items())}


def tasks(tier, seed):
    q = tier == "quick"
    out = []
    S1 = {"X": ["x0", "x1"], "Y": ["y0"]}
    S2 = {"X": ["x0", "x1"], "Y": ["y0", "y1"]}
    S0 = {"X": ["a", "b", "c"]}
    def t(cls, slates, N, **kw):
        p = {"cls": cls, "slates": slates, "N": N}
        p.update({k: v for k, v in kw.items() if k in ("by_bloc", "method", "ballot_length", "num_votes", "symbolic", "zero_support", "bloc_voter_prop", "from_params")})
        d = {"harness": "c14.generate", "params": p, "sig_keys": ["cls", "method"], "name": f"{cls} {kw.get('method', '')} N={N} slates={ {k: len(v) for k, v in slates.items()} } {kw.get('by_bloc', False)}",
             "xval_stride": kw.get("xval_stride", 7), "weight": kw.get("weight", 5)}
        for k in ("split", "canary", "stop_on_violation"):
            if k in kw:
                d[k] = kw[k]
        return d
    Ns = (1, 2)
    for N in Ns:
        out.append(t("ImpartialCulture", S0, N))
        out.append(t("ImpartialAnonymousCulture", {"X": ["a", "b"]}, N))
        out.append(t("BallotSimplex", {"X": ["a", "b", "c"] if N == 1 else ["a", "b"]}, N))
        out.append(t("name_PlackettLuce", S1, N, by_bloc=True, split=3, weight=20))
        out.append(t("short_name_PlackettLuce", S1, N, by_bloc=N == 1, ballot_length=2, split=3, weight=20))
        out.append(t("name_BradleyTerry", S1, N, by_bloc=True, split=3, weight=20))
        out.append(t("name_BradleyTerry", S1, N, by_bloc=True, method="MCMC", split=3, weight=20))
        out.append(t("name_Cumulative", S1, N, by_bloc=True, num_votes=2, split=3, weight=20))
        out.append(t("slate_PlackettLuce", S1, N, by_bloc=True, split=4, weight=30))
        out.append(t("slate_BradleyTerry", S1, N, by_bloc=True, split=4, weight=30))
        out.append(t("slate_BradleyTerry", S1, N, by_bloc=True, method="MCMC", split=4, weight=30))
        out.append(t("AlternatingCrossover", S1, N, by_bloc=True, split=4, weight=30))
        out.append(t("CambridgeSampler", S1, N, by_bloc=True, split=4, weight=30))
        out.append(t("OneDimSpatial", {"X": ["a", "b", "c"] if N == 1 else ["a", "b"]}, N))
    out.append(t("name_PlackettLuce", S1, 1, by_bloc=True, from_params=True, split=3, weight=20))
    out.append(t("slate_PlackettLuce", S1, 1, by_bloc=True, from_params=True, split=4, weight=30))
    out.append(t("slate_PlackettLuce", {"X": ["x0", "x1"], "Y": ["y0"], "Z": ["z0"]}, 1, by_bloc=False, split=5, weight=40))
    if not q:
        for cls in ("name_PlackettLuce", "slate_PlackettLuce", "slate_BradleyTerry", "AlternatingCrossover"):
            out.append(t(cls, S2, 1, by_bloc=True, split=6, weight=60))
        # the 24-ranking Bradley-Terry table over symbolic supports costs minutes per path: concrete supports here
        out.append(t("name_BradleyTerry", S2, 1, by_bloc=True, symbolic=False, split=2, weight=60))
        out.append(t("short_name_PlackettLuce", S2, 1, ballot_length=3, split=5, weight=40))
        out.append(t("short_name_PlackettLuce", S1, 2, ballot_length=1, split=3, weight=20))
        out.append(t("name_Cumulative", S1, 2, num_votes=3, split=4, weight=30))
        out.append(t("name_PlackettLuce", {"X": ["x0", "x1", "x2"]}, 2, split=3, weight=20))
        out.append(t("ImpartialCulture", S0, 3, weight=20))
    out.append(t("name_PlackettLuce", S1, 1, by_bloc=True, canary="proportions-reversed", stop_on_violation=True, xval_stride=0, bloc_voter_prop={"X": 0.75, "Y": 0.25}))
    out[-1]["name"] = "canary:proportions-reversed"
    return out


META = {
    "explanation": "every generator class built with symbolic supports and cohesion (exact real arithmetic) and run with the random stubs forking over every outcome and the apportionment stub over every admissible split; on every path the returned profile(s) are checked for size, integer weights, declared candidates, completeness, zero-support handling, ballot length / points, per-bloc sums and the apportionment call contract",
    "assumptions": ["floats abstracted as reals", "A-RND", "A-APP (apportionment.methods.compute external: arbitrary split with zero for zero proportions; call contract checked)",
                    "CambridgeSampler is run on a synthetic 6-type frequency table written by the harness; the 8,559-type historical pickle is outside the claim",
                    "Spatial/ClusteredSpatial: see C16 (driven with stub distributions); N <= 2 (quick) / 3 (thorough)", "Dirichlet(alpha >= 1e19) is the point mass at uniform"],
}
