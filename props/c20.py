"""C20 -- invalid requests are rejected up front with the documented error."""
from __future__ import annotations

import itertools
from fractions import Fraction as RealFraction

from sx import core
from sx.core import PathBudget, eq, ne, le, lt, ge, gt, AND, OR, NOT, IFF, add, sub, mul, div, num
from sx.engine import harness
from . import common as C, families as F, c01
from .c01 import where_raised

def _gen_extra():
    from .c15 import sym_round
    from sx.env import sym_only
    return {("votekit.pref_interval", "round"): sym_only(sym_round), ("votekit.ballot_generator", "round"): sym_only(sym_round)}


GEN_EXTRA = _gen_extra()
CONC = [("A>B>C", 3), ("B>C", 2), ("C>A", 2), ("A", 1)]
CONC_SCORES = [({"A": 1, "B": 1}, 2), ({"B": 1, "C": 1}, 1), ({"A": 1}, 1)]


def conc_profile(kind="rank"):
    from votekit.pref_profile import PreferenceProfile
    from votekit.ballot import Ballot
    if kind == "small":  # PluralityVeto shuffles one unit ballot per unit of weight: keep the total tiny
        bs = tuple(C.mk_ballot(C.R(s), RealFraction(w)) for s, w in [("A>B>C", 1), ("B>C>A", 1)])
        return PreferenceProfile(ballots=bs, candidates=("A", "B", "C"))
    if kind == "rank":
        bs = tuple(C.mk_ballot(C.R(s), RealFraction(w)) for s, w in CONC)
    else:
        bs = tuple(Ballot(scores=dict(s), weight=RealFraction(w)) for s, w in CONC_SCORES)
    return PreferenceProfile(ballots=bs, candidates=("A", "B", "C"))


@harness("c20.seats", extra=c01.EXTRA, logic=None, int_bound=12, path_alarm=60.0)
def seats(ctx):
    """symbolic integer seat count(s) on a concrete profile: ValueError <=> out of range"""
    P = ctx.params
    rule, opts = P["rule"], P.get("opts", {})
    n = 3
    prof = conc_profile("score" if rule in c01.SCORE_RULES else ("small" if rule == "PluralityVeto" else "rank"))
    m = ctx.integer("m", lo=-3, hi=7)
    if rule == "Alaska":
        m1 = ctx.integer("m1", lo=-2, hi=5)
        opts = dict(opts, m_1=m1)
        ok = AND(ge(m, 1), ge(m1, m), le(m1, n))
        stated = AND(ge(m, 1), ge(m1, m))  # what the statement lists for Alaska; m_1 <= n is the general seat-count clause
    else:
        ok = AND(ge(m, 1), le(m, n))
    if ctx.canary == "m-equal-n-rejected":
        ok = AND(ge(m, 1), lt(m, n))
    try:
        if rule in c01.SCORE_RULES:
            e = c01.construct_score(rule, prof, m, opts.get("L", 1), opts.get("k"), "random")
        else:
            e = c01.construct(rule, prof, m, opts)
    except ValueError as exc:
        ctx.require(NOT(ok), "c20:valueerror-for-valid-seat-count", f"{rule}: {exc}"[:200])
        return {"kind": "valueerror"}
    except PathBudget:
        ctx.require(ok, "c20:invalid-seat-count-runs-forever", rule)
        return {"kind": "nonterm"}
    except Exception as exc:
        if ctx.possible(ok):
            ctx.require(True, "c20:other-exception-on-valid-seats (C01's subject)")
            return {"kind": "exc-valid"}
        ctx.fail(f"c20:wrong-exception-for-seat-count:{type(exc).__name__}", f"{rule}: {exc}"[:200])
        return {"kind": "exc"}
    ctx.require(ok, "c20:invalid-seat-count-accepted", f"{rule} returned a result for an out-of-range seat count")
    return {"kind": "result", "elected": len(C.flat(e.get_elected()))}


@harness("c20.vector")
def vector(ctx):
    import votekit.utils as U
    P = ctx.params
    k, via = P["k"], P["via"]
    vec = [ctx.real(f"v{j}") for j in range(k)]
    bad = OR(*([lt(v, 0) for v in vec] + [gt(b, a) for a, b in zip(vec, vec[1:])]))
    if ctx.canary == "zero-entry-rejected":
        bad = OR(*([le(v, 0) for v in vec] + [gt(b, a) for a, b in zip(vec, vec[1:])]))
    prof = conc_profile()
    try:
        if via == "validate":
            U.validate_score_vector(vec)
        elif via == "score":
            U.score_profile_from_rankings(prof, vec)
        else:
            c01.construct("Borda", prof, 1, {"score_vector": vec, "tiebreak": "random"})
    except ValueError as exc:
        ctx.require(bad, "c20:valid-vector-rejected", f"{via}: {exc}"[:200])
        return {"kind": "valueerror"}
    except Exception as exc:
        ctx.fail(f"c20:vector-wrong-exception:{type(exc).__name__}", f"{via}: {exc}"[:200])
        return {"kind": "exc"}
    ctx.require(NOT(bad), "c20:invalid-vector-accepted", f"{via}: negative or increasing score vector accepted")
    return {"kind": "accepted"}


@harness("c20.rating_params", extra=c01.EXTRA)
def rating_params(ctx):
    from votekit import elections as E
    P = ctx.params
    rule, m = P["rule"], P["m"]
    prof = conc_profile("score")
    L = ctx.real("L", snap=True)
    k = ctx.real("k", snap=True)
    try:
        if rule == "GeneralRating":
            ok = AND(gt(L, 0), gt(k, 0), le(L, k))
            if ctx.canary == "L-equal-k-rejected":
                ok = AND(gt(L, 0), gt(k, 0), lt(L, k))
            E.GeneralRating(prof, m=m, L=L, k=k, tiebreak="random")
        elif rule == "Rating":
            ok = gt(L, 0)
            E.Rating(prof, m=m, L=L, tiebreak="random")
        elif rule == "Limited":
            ok = AND(gt(k, 0), le(k, m))
            E.Limited(prof, m=m, k=k, tiebreak="random")
        else:
            raise ValueError(rule)
    except ValueError as exc:
        ctx.require(NOT(ok), "c20:valid-rating-parameters-rejected", f"{rule}: {exc}"[:200])
        return {"kind": "valueerror"}
    except TypeError:
        # limits themselves fine, the (concrete) ballots exceed them: not this clause
        ctx.require(ok, "c20:invalid-rating-parameters-reach-validation", f"{rule}: ballots were validated against non-positive or inconsistent limits")
        return {"kind": "typeerror"}
    except Exception as exc:
        ctx.fail(f"c20:rating-wrong-exception:{type(exc).__name__}", f"{rule}: {exc}"[:200])
        return {"kind": "exc"}
    ctx.require(ok, "c20:invalid-rating-parameters-accepted", f"{rule}: non-positive or inconsistent limit/budget accepted")
    return {"kind": "accepted"}


@harness("c20.ballot_data", extra=c01.EXTRA)
def ballot_data(ctx):
    """a ballot lacking the data the rule needs, at every index of a 3-ballot profile: TypeError"""
    from votekit.ballot import Ballot
    from votekit.pref_profile import PreferenceProfile
    P = ctx.params
    rule, defect, idx, opts = P["rule"], P["defect"], P["idx"], P.get("opts", {})
    ws = [ctx.real(f"w{i}", lo=0, lo_strict=True) for i in range(3)]
    ctx.assume(le(add(*ws), 6))
    if P.get("integer"):
        for w in ws:
            ctx.assume(OR(eq(w, 1), eq(w, 2)))
    score_rule = rule in c01.SCORE_RULES
    bs = []
    for i in range(3):
        good = Ballot(scores={"A": 1, "B": 1}, weight=ws[i]) if score_rule else Ballot(ranking=C.to_ranking(C.R(["A>B>C", "B>C", "C>A"][i])), weight=ws[i])
        if i == idx:
            if defect == "no-ranking":
                b = Ballot(scores={"A": 1}, weight=ws[i])
            elif defect.startswith("tied"):
                shape = {"tied": "A>BC", "tied-first": "AB>C", "tied-all": "ABC", "tied-middle": "A>BC>D"}[defect]
                b = Ballot(ranking=C.to_ranking(C.R(shape)), weight=ws[i])
            elif defect == "no-scores":
                b = Ballot(ranking=C.to_ranking(C.R("A>B")), weight=ws[i])
            else:
                b = good
            bs.append(b)
        else:
            bs.append(good)
    prof = PreferenceProfile(ballots=tuple(bs), candidates=("A", "B", "C"))
    try:
        if score_rule:
            c01.construct_score(rule, prof, 1, 1, None, "random")
        else:
            c01.construct(rule, prof, 1, opts)
    except TypeError:
        if defect == "none":
            ctx.fail("c20:typeerror-on-valid-ballots", rule)
        else:
            ctx.require(True, "c20:rejected")
        return {"kind": "typeerror"}
    except Exception as exc:
        if defect == "none":
            ctx.require(True, "c20:other (C01's subject)")
            return {"kind": "other"}
        ctx.fail(f"c20:wrong-exception-for-missing-data:{type(exc).__name__}", f"{rule} {defect}@{idx}: {exc}"[:200])
        return {"kind": "exc"}
    if defect != "none" and ctx.canary != "accept-all":
        ctx.fail("c20:ballot-without-needed-data-accepted", f"{rule}: ballot {idx} has defect {defect}")
    ctx.require(True, "c20:accepted")
    return {"kind": "accepted"}


@harness("c20.integer_weight", extra=c01.EXTRA)
def integer_weight(ctx):
    """PluralityVeto / random_transfer: TypeError <=> some weight is not a whole number"""
    from votekit.ballot import Ballot
    from votekit.pref_profile import PreferenceProfile
    from votekit import elections as E
    P = ctx.params
    what, idx = P["what"], P["idx"]
    ws = []
    for i in range(2):
        if i == idx:
            w = ctx.real(f"w{i}", lo=0, lo_strict=True, hi=3)
        else:
            w = ctx.real(f"w{i}", lo=1, hi=1)
        ws.append(w)
    integral = OR(*[eq(ws[idx], k) for k in (1, 2, 3)])
    if ctx.canary == "half-weights-allowed":
        integral = OR(integral, eq(ws[idx], RealFraction(1, 2)))
    bs = [Ballot(ranking=C.to_ranking(C.R(s)), weight=w) for s, w in zip(["A>B>C", "A>C"], ws)]
    try:
        if what == "PluralityVeto":
            E.PluralityVeto(PreferenceProfile(ballots=tuple(bs), candidates=("A", "B", "C")), m=1)
        else:
            E.random_transfer("A", RealFraction(5), bs, 5)
    except TypeError as exc:
        ctx.require(NOT(integral), "c20:typeerror-for-integer-weights", f"{what}: {exc}"[:200])
        return {"kind": "typeerror"}
    except (Exception, PathBudget) as exc:
        if ctx.possible(integral):
            ctx.require(True, "c20:other (C01's subject)")
            return {"kind": "other"}
        ctx.fail(f"c20:wrong-exception-for-fractional-weight:{type(exc).__name__}", f"{what}: {exc}"[:200])
        return {"kind": "exc"}
    ctx.require(integral, "c20:fractional-weight-accepted", f"{what} accepted a non-integer weight")
    return {"kind": "accepted"}


@harness("c20.gen_sums", extra=GEN_EXTRA, float_mix="real")
def gen_sums(ctx):
    """generators refuse bloc proportions / cohesion rows that do not sum to one (exact real arithmetic:
    round(x, 8) != 1 is modelled as x != 1; the 5e-9 tolerance band is outside the claim)"""
    from sx import env
    from . import gen
    bg = env.import_generators()
    from votekit.pref_interval import PreferenceInterval
    P = ctx.params
    which = P["which"]
    a = ctx.real("a", lo=0, hi=1, snap=True)
    b = ctx.real("b", lo=0, hi=1, snap=True)
    av, bv = (a, b) if ctx.sym else (float(a), float(b))
    props = {"X": 0.5, "Y": 0.5}
    coh = {"X": {"X": 0.75, "Y": 0.25}, "Y": {"X": 0.25, "Y": 0.75}}
    if which == "props":
        props = {"X": av, "Y": bv}
    elif which == "cohesion0":
        coh["X"] = {"X": av, "Y": bv}
    else:
        coh["Y"] = {"X": av, "Y": bv}
    ok = eq(add(a, b), 1)
    if ctx.canary == "sum-below-one-accepted":
        ok = le(add(a, b), 1)
    iv = {x: {"X": PreferenceInterval({"x0": 0.5, "x1": 0.5}), "Y": PreferenceInterval({"y0": 1.0})} for x in ("X", "Y")}
    cls = getattr(bg, P["cls"])
    kw = dict(pref_intervals_by_bloc=iv, bloc_voter_prop=props, cohesion_parameters=coh)
    if P["cls"] in ("slate_PlackettLuce", "AlternatingCrossover", "slate_BradleyTerry"):
        kw["slate_to_candidates"] = {"X": ["x0", "x1"], "Y": ["y0"]}
    else:
        kw["candidates"] = ["x0", "x1", "y0"]
    if P["cls"] == "name_Cumulative":
        kw["num_votes"] = 2
    try:
        cls(**kw)
    except ValueError as exc:
        ctx.require(NOT(ok), "c20:generator-rejects-valid-sum", f"{P['cls']} {which}: {exc}"[:200])
        return {"kind": "valueerror"}
    except ZeroDivisionError:
        ctx.require(True, "c20:degenerate (C15's subject)")
        return {"kind": "zerodiv"}
    except Exception as exc:
        ctx.fail(f"c20:generator-wrong-exception:{type(exc).__name__}", f"{P['cls']} {which}: {exc}"[:200])
        return {"kind": "exc"}
    ctx.require(ok, "c20:generator-accepts-bad-sum", f"{P['cls']}: {which} not summing to one accepted")
    return {"kind": "accepted"}


@harness("c20.interval_overlap", extra=GEN_EXTRA, float_mix="real")
def interval_overlap(ctx):
    """preference intervals with overlapping candidate sets are refused whatever the supports are
    (including an overlap that runs only through zero-support candidates)"""
    from votekit.pref_interval import PreferenceInterval, combine_preference_intervals
    P = ctx.params
    groups = P["groups"]
    ivs = []
    for gi, g in enumerate(groups):
        sup = {}
        for c in g:
            v = ctx.real(f"s{gi}_{c}", lo=0, snap=True)
            sup[c] = v if ctx.sym else float(v)
        ctx.assume(gt(add(*[ctx.real(f"s{gi}_{c}", lo=0, snap=True) if False else (sup[c] if ctx.sym else RealFraction(ctx.model[f"s{gi}_{c}"])) for c in g]), 0))
        ivs.append(PreferenceInterval(dict(sup)))
    props = [1.0 / len(groups)] * len(groups)
    overlap = len(set(c for g in groups for c in g)) != sum(len(g) for g in groups)
    if ctx.canary == "overlap-tolerated":
        overlap = False
    try:
        combine_preference_intervals(ivs, props)
    except ValueError:
        if not overlap:
            ctx.fail("c20:disjoint-intervals-rejected", f"{groups}")
        else:
            ctx.require(True, "c20:rejected")
        return {"kind": "valueerror"}
    except Exception as exc:
        ctx.fail(f"c20:interval-wrong-exception:{type(exc).__name__}", str(exc)[:200])
        return {"kind": "exc"}
    if overlap:
        ctx.fail("c20:overlapping-intervals-accepted", f"intervals over {groups} share a candidate but were combined")
    ctx.require(True, "c20:accepted")
    return {"kind": "accepted"}


def direct_clauses():
    from sx import env
    env.import_votekit()
    from votekit.pref_profile import PreferenceProfile
    from votekit import elections as E
    probs = []
    prof = conc_profile()
    for cs in (("A", "A"), ("A", "B", "A"), ("B", "A", "C", "C")):
        try:
            PreferenceProfile(candidates=cs)
            probs.append(f"duplicate candidates {cs} accepted")
        except ValueError:
            pass
    for qn in ("Droop", "droop ", "", "hare2", "DROOP", "quota"):
        try:
            E.STV(prof, m=1, quota=qn)
            probs.append(f"quota name {qn!r} accepted")
        except ValueError:
            pass
        except Exception as exc:
            probs.append(f"quota name {qn!r}: {type(exc).__name__}")
    for qn in ("droop", "hare"):
        try:
            E.STV(prof, m=1, quota=qn)
        except Exception as exc:
            probs.append(f"valid quota {qn!r} rejected: {type(exc).__name__}")
    # generators: mismatched bloc names, overlapping interval candidate sets
    bg = env.import_generators()
    from votekit.pref_interval import PreferenceInterval, combine_preference_intervals
    iv = {x: {"X": PreferenceInterval({"x0": 0.5, "x1": 0.5}), "Y": PreferenceInterval({"y0": 1.0})} for x in ("X", "Y")}
    good = dict(candidates=["x0", "x1", "y0"], pref_intervals_by_bloc=iv, bloc_voter_prop={"X": 0.5, "Y": 0.5},
                cohesion_parameters={"X": {"X": 0.75, "Y": 0.25}, "Y": {"X": 0.25, "Y": 0.75}})
    try:
        bg.name_PlackettLuce(**good)
    except Exception as exc:
        probs.append(f"valid generator parameters rejected: {type(exc).__name__}")
    for field, bad in (("bloc_voter_prop", {"X": 0.5, "Z": 0.5}), ("cohesion_parameters", {"X": {"X": 0.75, "Y": 0.25}, "Z": {"X": 0.25, "Y": 0.75}}),
                       ("pref_intervals_by_bloc", {"X": iv["X"], "W": iv["Y"]})):
        try:
            bg.name_PlackettLuce(**dict(good, **{field: bad}))
            probs.append(f"mismatched bloc names in {field} accepted")
        except ValueError:
            pass
        except Exception as exc:
            probs.append(f"mismatched bloc names in {field}: {type(exc).__name__}")
    try:
        combine_preference_intervals([PreferenceInterval({"a": 0.5, "b": 0.5}), PreferenceInterval({"b": 1.0})], [0.5, 0.5])
        probs.append("overlapping interval candidate sets accepted")
    except ValueError:
        pass
    try:
        bg.name_PlackettLuce(pref_intervals_by_bloc=iv, bloc_voter_prop={"X": 0.5, "Y": 0.5}, cohesion_parameters=good["cohesion_parameters"])
        probs.append("generator without candidates accepted")
    except ValueError:
        pass
    return probs


def run_direct(task):
    """clauses without symbolic input, evaluated directly (labelled so in the evidence).  A failing clause is a
    violation like any other: it is written as a replay file whose replay re-evaluates the clause."""
    probs = direct_clauses()
    viol = [{"label": "c20:direct:" + p.split(":")[0][:60], "detail": p, "model": {}, "script": [], "path": 0,
             "harness": "c20.direct_replay", "params": {"max_n": task.get("max_n", 5)}} for p in probs]
    return {"task": task, "paths": 1, "decisions": 0, "queries": 0, "solver_s": 0.0, "unknown": 0, "violations": viol[:3],
            "violation_count": len(viol), "inconclusive": [], "harness_errors": [],
            "xval": 0, "xval_mismatch": [], "asserted": 1, "exhausted": True, "samples": [], "functions": {}, "patched": [],
            "extra": {"direct_clauses_evaluated": 1}}


@harness("c20.direct_replay")
def direct_replay(ctx):
    if ctx.sym:
        ctx.require(True, "noop")
        return {}
    probs = direct_clauses()
    if probs:
        raise core.ConcViolation("c20:direct", "; ".join(probs)[:400])
    return {"kind": "ok"}


def tasks(tier, seed):
    q = tier == "quick"
    out = []
    o = {"quota": "droop", "simultaneous": True, "transfer": "fractional", "tiebreak": "random"}
    for rule, opts in [("STV", o), ("SequentialRCV", {"quota": "droop", "simultaneous": True, "tiebreak": "random"}), ("Plurality", {"tiebreak": "random"}),
                       ("SNTV", {"tiebreak": "random"}), ("Borda", {"tiebreak": "random"}), ("CondoBorda", {}), ("RandomDictator", {}),
                       ("BoostedRandomDictator", {}), ("PluralityVeto", {"tiebreak": None}), ("Alaska", o),
                       ("Rating", {}), ("Approval", {}), ("Limited", {"k": 1}), ("Cumulative", {}), ("BlocPlurality", {})]:
        out.append({"harness": "c20.seats", "params": {"rule": rule, "opts": opts}, "sig_keys": ["rule"], "name": f"seats {rule}",
                    "weight": 10 if rule in ("Alaska", "PluralityVeto") else 3, "xval_stride": 2, "split": 3 if rule == "Alaska" else 0})
    for via in ("validate", "score", "Borda"):
        for k in ((2, 3) if q else (1, 2, 3, 4)):
            out.append({"harness": "c20.vector", "params": {"k": k, "via": via}, "sig_keys": ["via"], "name": f"vector {via} k={k}"})
    for rule in ("GeneralRating", "Rating", "Limited"):
        for m in (1, 2):
            out.append({"harness": "c20.rating_params", "params": {"rule": rule, "m": m}, "sig_keys": ["rule"], "name": f"rating params {rule} m={m}"})
    combos = [("STV", "no-ranking", o), ("STV", "tied", o), ("STV", "tied-first", o), ("STV", "tied-all", o), ("STV", "tied-middle", o), ("IRV", "tied-first", {"quota": "droop", "tiebreak": "random"}),
              ("SequentialRCV", "tied-middle", {"quota": "droop", "simultaneous": True, "tiebreak": "random"}), ("IRV", "tied", {"quota": "droop", "tiebreak": "random"}),
              ("SequentialRCV", "tied", {"quota": "droop", "simultaneous": True, "tiebreak": "random"}), ("Plurality", "no-ranking", {"tiebreak": "random"}),
              ("Borda", "no-ranking", {"tiebreak": "random"}), ("Alaska", "no-ranking", dict(o, m_1=2)), ("TopTwo", "no-ranking", {"tiebreak": "random"}),
              ("CondoBorda", "no-ranking", {}), ("DominatingSets", "no-ranking", {}), ("RandomDictator", "no-ranking", {}),
              ("PluralityVeto", "no-ranking", {"tiebreak": None}), ("Rating", "no-scores", {}), ("Approval", "no-scores", {}),
              ("Cumulative", "no-scores", {}), ("Limited", "no-scores", {}), ("BlocPlurality", "no-scores", {}),
              ("STV", "none", o), ("Plurality", "none", {"tiebreak": "random"}), ("Rating", "none", {})]
    for rule, defect, opts in combos:
        for idx in (0, 1, 2):
            out.append({"harness": "c20.ballot_data", "params": {"rule": rule, "defect": defect, "idx": idx, "opts": opts, "integer": rule == "PluralityVeto"},
                        "sig_keys": ["rule", "defect"], "name": f"ballot data {rule} {defect}@{idx}"})
    for what in ("PluralityVeto", "random_transfer"):
        for idx in (0, 1):
            out.append({"harness": "c20.integer_weight", "params": {"what": what, "idx": idx}, "sig_keys": ["what"], "name": f"integer weight {what}@{idx}"})
    for cls in ("name_PlackettLuce", "slate_PlackettLuce", "name_BradleyTerry", "AlternatingCrossover", "name_Cumulative"):
        for which in ("props", "cohesion0", "cohesion1"):
            out.append({"harness": "c20.gen_sums", "params": {"cls": cls, "which": which}, "sig_keys": ["cls", "which"], "name": f"generator sums {cls} {which}"})
    for groups in ([["a", "b"], ["b", "c"]], [["a", "b"], ["c"]], [["a"], ["b", "c"], ["c", "d"]], [["a", "b"], ["c", "a"]]):
        out.append({"harness": "c20.interval_overlap", "params": {"groups": groups}, "sig_keys": [], "name": f"interval overlap {groups}"})
    out.append({"harness": "c20.interval_overlap", "params": {"groups": [["a", "b"], ["b", "c"]]}, "canary": "overlap-tolerated", "stop_on_violation": True,
                "name": "canary:overlap-tolerated", "xval_stride": 0})
    out.append({"harness": "c20.gen_sums", "params": {"cls": "name_PlackettLuce", "which": "props"}, "canary": "sum-below-one-accepted", "stop_on_violation": True,
                "name": "canary:sum-below-one-accepted", "xval_stride": 0})
    out.append({"kind": "call", "module": "props.c20", "func": "run_direct", "harness": "c20.direct", "name": "direct clauses (duplicate candidates, quota names)"})
    out.append({"harness": "c20.seats", "params": {"rule": "Plurality", "opts": {"tiebreak": "random"}}, "canary": "m-equal-n-rejected", "stop_on_violation": True,
                "name": "canary:m-equal-n-rejected", "xval_stride": 0})
    out.append({"harness": "c20.vector", "params": {"k": 2, "via": "validate"}, "canary": "zero-entry-rejected", "stop_on_violation": True,
                "name": "canary:zero-entry-rejected", "xval_stride": 0})
    out.append({"harness": "c20.rating_params", "params": {"rule": "GeneralRating", "m": 1}, "canary": "L-equal-k-rejected", "stop_on_violation": True,
                "name": "canary:L-equal-k-rejected", "xval_stride": 0})
    out.append({"harness": "c20.integer_weight", "params": {"what": "PluralityVeto", "idx": 0}, "canary": "half-weights-allowed", "stop_on_violation": True,
                "name": "canary:half-weights-allowed", "xval_stride": 0})
    return out


META = {
    "explanation": "one harness per documented precondition with the violating quantity symbolic (integer seat counts incl. Alaska's two stages, rational score-vector entries, rating limit/budget, ballot weights, the index of the defective ballot enumerated) and both directions asserted: the documented exception is raised iff the precondition is violated",
    "assumptions": ["A-LD", "A-RND", "A-FMT", "A-PD", "seat counts bounded to [-3,7] (3 candidates), weights to (0,3]", "quota names and duplicate candidate tuples have no numeric input: evaluated directly on listed values (not a solver claim)"],
    "direct": ["duplicate candidate tuples rejected with ValueError", "unknown quota names rejected with ValueError on a list of near-miss strings", "mismatched bloc names between the three generator dictionaries", "overlapping preference-interval candidate sets", "generator without candidates"],
}
