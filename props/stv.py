"""Shared STV-family harness: runs the real STV/IRV/SequentialRCV constructor on a support with
symbolic weights, observes every recorded round (profile in, profile out, state), and compares with
a spec step written from the statement of C02.  Assertion groups:
  c02  legality of each round + threshold + reported tallies/order
  c03  conservation of weight across rounds
  c07  Droop proportionality for solid coalitions / IRV majority (axiom)
  c10  recorded tiebreaks are genuine, strict orders, obeyed; random draws only among tied candidates
"""
from __future__ import annotations

import itertools
from fractions import Fraction as RealFraction

from sx import core
from sx.core import PathBudget, eq, ne, le, lt, ge, gt, AND, OR, NOT, IMPL, add, sub, mul, div, num
from sx.engine import harness
from sx.env import factory
from . import common as C
from . import c01

STV_MOD = "votekit.elections.election_types.ranking.stv"


def _step_recorder(ctx):
    import importlib
    M = importlib.import_module(STV_MOD)
    real = M.STV.__dict__["_run_step"]
    ctx.notes["steps"] = []

    def wrapped(self, profile, prev_state, store_states=False):
        n_rlog = len(ctx.rlog)
        out = real(self, profile, prev_state, store_states)
        if store_states:
            ctx.notes["steps"].append({"in": profile, "prev": prev_state, "out": out,
                                       "state": self.election_states[-1], "rlog": ctx.rlog[n_rlog:]})
        return out

    return wrapped


def _transfer_recorder(ctx):
    import votekit.elections.transfers as T
    real = T.fractional_transfer
    ctx.notes["transfers"] = []

    def wrapped(winner, fpv, ballots, threshold):
        ctx.notes["transfers"].append((winner, fpv, list(ballots), threshold))
        return real(winner, fpv, ballots, threshold)

    return wrapped


EXTRA = dict(c01.EXTRA)
EXTRA[(STV_MOD + ":STV", "_run_step")] = factory(_step_recorder)


def tallies(pmap, cands):
    t = {c: RealFraction(0) for c in cands}
    for k, w in pmap.items():
        if k and k[0][0] in t:
            t[k[0][0]] = add(t[k[0][0]], w)
    return t


def strike(pmap, removed, scale=None):
    """image of a ranking->weight map when `removed` candidates are struck; `scale[c]` multiplies the
    weight of ballots led by c"""
    out = {}
    for k, w in pmap.items():
        lead = k[0][0] if k else None
        if scale and lead in scale:
            w = mul(w, scale[lead])
        nk = tuple(p for p in (tuple(c for c in pos if c not in removed) for pos in k) if p)
        if not nk:
            continue
        out[nk] = add(out[nk], w) if nk in out else num(w)
    return out


def map_total(pmap):
    return add(*pmap.values()) if pmap else RealFraction(0)


def maps_equal(a, b):
    keys = sorted(set(a) | set(b))
    return AND(*[eq(a.get(k, 0), b.get(k, 0)) for k in keys]) if keys else True


def grouping_ok(ctx, remaining, t, label, detail):
    """`remaining` groups the keys of t exactly by equal value, in descending order"""
    groups = [sorted(g) for g in remaining if len(g) > 0]
    if sorted(c for g in groups for c in g) != sorted(t):
        ctx.fail(label, detail + f": groups {groups} vs candidates {sorted(t)}")
        return
    conds = []
    for g in groups:
        conds += [eq(t[g[0]], t[x]) for x in g[1:]]
    for g, h in zip(groups, groups[1:]):
        conds.append(gt(t[g[0]], t[h[0]]))
    ctx.require(AND(*conds) if conds else True, label, detail)


@harness("stv.run", extra=EXTRA, path_alarm=60.0)
def stv_run(ctx):
    P = ctx.params
    rule, m, opts, cands = P["rule"], P["m"], P.get("opts", {}), P["cands"]
    checks = set(P.get("checks", ["c02"]))
    profile, present = C.family_profile(ctx, P["family"], cands, nmax=P.get("nmax"), integer_w=P.get("W"),
                                        strict=P.get("strict", True))
    N = C.total_weight(present)
    quota = opts.get("quota", "droop")
    sim = opts.get("simultaneous", True) if rule != "IRV" else True
    tb = opts.get("tiebreak")
    seq = rule == "SequentialRCV"
    fractional = opts.get("transfer", "fractional") == "fractional" and not seq
    mm = 1 if rule == "IRV" else m
    try:
        e = c01.construct(rule, profile, m, opts)
    except PathBudget:
        ctx.require(True, "stv-run-aborted")
        return {"kind": "nonterm"}
    except Exception as exc:  # C01's business (ties without tiebreak, known defects)
        ctx.require(True, "stv-run-aborted")
        return {"kind": "exc", "type": type(exc).__name__}
    T = e.threshold
    states = e.election_states
    steps = ctx.notes.get("steps", [])
    out = {"kind": "result", "T": T, "states": C.states_json(e)}
    p0 = C.weight_by_ranking(present)
    init_t = tallies(p0, cands)

    if "c02" in checks:
        # ---- threshold ----
        if quota == "droop":
            cond = AND(le((T - 1) * (mm + 1), N), lt(N, T * (mm + 1)))
            if ctx.canary == "droop-without-plus-one":
                cond = AND(le(T * (mm + 1), N), lt(N, (T + 1) * (mm + 1)))
        else:
            cond = AND(le(T * mm, N), lt(N, (T + 1) * mm))
        ctx.require(cond, "c02:threshold", f"threshold {T} is not the {quota} quota of the total weight for m={mm}")
        if len(steps) != len(states) - 1:
            ctx.fail("c02:round-records", f"{len(steps)} observed steps vs {len(states) - 1} recorded rounds")
            return out
        # ---- round 0 ----
        if steps:
            ctx.require(maps_equal(C.weight_by_ranking(C.ballots_as_present(steps[0]["in"])), p0), "c02:round0-profile")
        ctx.require(AND(*[eq(states[0].scores[c], init_t[c]) for c in cands]) if set(states[0].scores) == set(cands) else False,
                    "c02:round0-tallies", "round-0 scores are not the first-place weights")
        grouping_ok(ctx, states[0].remaining, init_t, "c02:round0-order", "round-0 remaining is not grouped by tally, descending")

    elected_so_far = []
    for r, st in enumerate(steps, start=1):
        pin = C.weight_by_ranking(C.ballots_as_present(st["in"]))
        pout = C.weight_by_ranking(C.ballots_as_present(st["out"]))
        rc = sorted(st["in"].candidates)
        t = tallies(pin, rc)
        state = st["state"]
        el = C.flat(state.elected)
        ou = C.flat(state.eliminated)
        above = [c for c in rc if ctx.truth(ge(t[c], T))]
        expect = None
        if above:
            kind = "elect"
            if sim:
                want = sorted(above)
                if ctx.canary == "elect-on-strictly-greater":
                    want = sorted(c for c in rc if ctx.truth(gt(t[c], T)))
                if "c02" in checks and sorted(el) != want:
                    ctx.fail("c02:elected-set", f"round {r}: elected {sorted(el)} but candidates at or above threshold are {want}")
                    return out
            else:
                if len(el) != 1:
                    if "c02" in checks:
                        ctx.fail("c02:elected-set", f"round {r}: one-by-one mode elected {el}")
                    return out
                w = el[0]
                if "c02" in checks:
                    ctx.require(AND(*[ge(t[w], t[x]) for x in rc]), "c02:elected-is-max",
                                f"round {r}: elected {w} does not have the highest tally")
                tied_top = [x for x in rc if ctx.truth(eq(t[x], t[w]))]
                if len(tied_top) > 1 and "c02" in checks:
                    rec = state.tiebreaks.get(frozenset(tied_top))
                    if rec is None or list(rec[0]) != [w]:
                        ctx.fail("c02:elect-tie-unrecorded", f"round {r}: {tied_top} tied at the top, elected {w}, tiebreaks {state.tiebreaks}")
            if ou and "c02" in checks:
                ctx.fail("c02:eliminated-in-elect-round", f"round {r}")
            scale = {}
            for c in el:
                if seq:
                    scale[c] = 1
                elif ctx.canary == "transfer-over-threshold":
                    scale[c] = div(sub(t[c], T), T)
                else:
                    scale[c] = div(sub(t[c], T), t[c])
            if fractional or seq:
                expect = strike(pin, set(el), scale)
                if not seq:
                    expect = {k: w_ for k, w_ in expect.items() if ctx.truth(gt(w_, 0))}
        elif len(rc) == mm - len(elected_so_far):
            kind = "default"
            if "c02" in checks:
                if sorted(el) != rc or ou:
                    ctx.fail("c02:default-election", f"round {r}: remaining {rc} equal the unfilled seats but elected={el} eliminated={ou}")
                    return out
            expect = {}
        else:
            kind = "eliminate"
            if len(ou) != 1 or el:
                if "c02" in checks:
                    ctx.fail("c02:eliminate-one", f"round {r}: elected={el} eliminated={ou}")
                return out
            x = ou[0]
            if "c02" in checks:
                cond = AND(*[le(t[x], t[y]) for y in rc])
                if ctx.canary == "eliminate-highest":
                    cond = AND(*[ge(t[x], t[y]) for y in rc])
                ctx.require(cond, "c02:eliminated-is-min", f"round {r}: eliminated {x} does not have the lowest tally")
                tied = [y for y in rc if ctx.truth(eq(t[y], t[x]))]
                if len(tied) > 1:
                    ctx.require(AND(*[le(init_t[x], init_t[y]) for y in tied]), "c02:elimination-tie-by-initial-tally",
                                f"round {r}: {tied} tie for last; {x} eliminated although another has a lower initial tally")
                    rec = state.tiebreaks.get(frozenset(tied))
                    if rec is None or list(rec[-1]) != [x]:
                        ctx.fail("c02:elimination-tie-unrecorded", f"round {r}: tied {tied}, eliminated {x}, tiebreaks {state.tiebreaks}")
            expect = strike(pin, {x})
        if "c02" in checks and expect is not None:
            ctx.require(maps_equal(pout, expect), f"c02:next-profile-{kind}",
                        f"round {r}: ballots after the {kind} step differ from the documented step")
        if "c02" in checks:
            rem_c = sorted(c for c in rc if c not in el and c not in ou) if kind != "default" else []
            t_next = tallies(pout, rem_c)
            if set(state.scores) != set(rem_c) and not (kind == "default" and not state.scores):
                ctx.fail("c02:scores-keys", f"round {r}: scores for {sorted(state.scores)} but remaining {rem_c}")
            else:
                ctx.require(AND(*[eq(state.scores[c], t_next[c]) for c in rem_c]) if rem_c else True, "c02:tallies",
                            f"round {r}: reported tallies are not the first-place weights of the resulting ballots")
                if rem_c:
                    grouping_ok(ctx, state.remaining, t_next, "c02:order", f"round {r}: remaining not grouped by tally, descending")
        if "c03" in checks:
            tin, tout = map_total(pin), map_total(pout)
            ctx.require(le(tout, tin), "c03:total-never-increases", f"round {r}")
            if kind == "elect" and (fractional or seq):
                drop = RealFraction(0)
                for c in el:
                    # weight of c's ballots with no surviving next choice
                    xc = add(*[w_ for k, w_ in pin.items() if k and k[0][0] == c and not any(
                        cc not in el for pos in k[1:] for cc in pos)]) if pin else 0
                    if seq:
                        drop = add(drop, xc)
                    else:
                        drop = add(drop, T, mul(xc, div(sub(t[c], T), t[c])))
                if ctx.canary == "conservation-forgets-exhausted":
                    drop = add(*[T for c in el]) if not seq else RealFraction(0)
                ctx.require(eq(sub(tin, tout), drop), "c03:round-conservation",
                            f"round {r}: weight lost in the elect step is not threshold + exhausted surplus")
            elif kind == "eliminate":
                ex_w = add(*[w_ for k, w_ in pin.items() if k and all(cc == ou[0] for pos in k for cc in pos)]) if pin else 0
                ctx.require(eq(sub(tin, tout), ex_w), "c03:round-conservation",
                            f"round {r}: weight lost in the elimination is not the exhausted weight")
        if "c10" in checks:
            check_tiebreak_records(ctx, r, st, t, init_t, el, ou, kind, tb, present, cands)
        elected_so_far += el

    if "c07" in checks and quota == "droop":
        E = set(C.flat(e.get_elected()))
        for k_sz in range(1, len(cands)):
            for S in itertools.combinations(cands, k_sz):
                Sset = set(S)
                solid = [w for shape, w in present
                         if len(shape) >= len(S) and set(c for pos in shape[:len(S)] for c in pos) == Sset]
                sw = add(*solid) if solid else RealFraction(0)
                have = len(E & Sset)
                for k in range(1, mm + 1):
                    need = min(k, len(S), mm)
                    if ctx.canary == "psc-demands-one-more":
                        need = min(k + 1, len(S), mm)
                    if have < need:
                        ctx.require(lt(sw, k * T), "c07:droop-psc",
                                    f"coalition {sorted(S)} solidly supported by >= {k} quotas has only {have} of its members elected (m={mm}, T={T})")
    if not checks & {"c02", "c03", "c10", "c07"}:
        ctx.require(True, "noop")
    ctx.require(True, "stv-run-observed")
    return out


def check_tiebreak_records(ctx, r, st, t, init_t, el, ou, kind, tb, present, cands):
    state = st["state"]
    rc = sorted(st["in"].candidates)
    for S, res in state.tiebreaks.items():
        Sl = sorted(S)
        members = [c for g in res for c in g]
        if any(len(g) != 1 for g in res) or sorted(members) != Sl:
            ctx.fail("c10:resolution-not-strict-order", f"round {r}: {Sl} -> {res}")
            continue
        if not all(c in t for c in Sl):
            ctx.fail("c10:tiebreak-on-absent-candidates", f"round {r}: {Sl}")
            continue
        cond = AND(*[eq(t[Sl[0]], t[x]) for x in Sl[1:]])
        if ctx.canary == "tiebreak-needs-strict-difference":
            cond = NOT(cond)
        ctx.require(cond, "c10:recorded-tie-not-genuine", f"round {r}: {Sl} recorded as tied but tallies differ")
        if kind == "elect":
            if not (set(el) & S) or not (S - set(el)):
                ctx.fail("c10:tiebreak-not-decisive", f"round {r}: tie {Sl} does not straddle the elect decision {el}")
            elif members[:len(set(el) & S)] != [c for c in members if c in el]:
                ctx.fail("c10:resolution-not-obeyed", f"round {r}: resolution {members} vs elected {el}")
            score_kind = tb
            score_present = C.ballots_as_present(st["in"])
            score_cands = rc
        elif kind == "eliminate":
            if len(S) < 2 or ou[0] not in S:
                ctx.fail("c10:tiebreak-not-decisive", f"round {r}: tie {Sl} does not contain the eliminated {ou}")
            elif members[-1] != ou[0]:
                ctx.fail("c10:resolution-not-obeyed", f"round {r}: resolution {members} but eliminated {ou}")
            score_kind = "first_place"
            score_present = present
            score_cands = cands
        else:
            ctx.fail("c10:tiebreak-in-default-round", f"round {r}")
            continue
        if score_kind in ("first_place", "borda"):
            sc = C.def_fpv(score_present, score_cands) if score_kind == "first_place" else C.def_borda(score_present, score_cands)
            ctx.require(AND(*[ge(sc[a], sc[b]) for a, b in zip(members, members[1:])]), "c10:resolution-ignores-score",
                        f"round {r}: {score_kind} tiebreak order {members} is not non-increasing in that score")
            for call in st["rlog"]:
                if call["fn"] == "sample":
                    pop = sorted(call["population"])
                    if not set(pop) <= S:
                        ctx.fail("c10:random-draw-outside-tie", f"round {r}: drew among {pop}, tie {Sl}")
                    else:
                        ctx.require(AND(*[eq(sc[pop[0]], sc[x]) for x in pop[1:]]), "c10:random-fallback-not-tied",
                                    f"round {r}: random fallback among {pop} which are not tied on {score_kind}")
    # every random draw with >= 2 outcomes must be covered by a recorded tiebreak of this round
    for call in st["rlog"]:
        if call["fn"] in ("sample", "shuffle", "choice", "choices") and len(set(map(str, call.get("population", [])))) > 1:
            pop = call["population"]
            if all(isinstance(x, str) for x in pop):
                if not any(set(pop) <= set(S) for S in state.tiebreaks):
                    ctx.fail("c10:unrecorded-random-draw", f"round {r}: random draw among {sorted(pop)} without a recorded tiebreak")
            elif st["state"].tiebreaks is not None and not P_random_transfer(call):
                ctx.fail("c10:unrecorded-random-draw", f"round {r}: random draw over non-candidate population")


def P_random_transfer(call):
    # the surplus draw of random_transfer is intentional randomness (C03), not a tiebreak
    from votekit.ballot import Ballot
    return all(isinstance(x, Ballot) for x in call.get("population", []))


def mk_task(rule, m, opts, sup, cands, checks, nmax=6, W=None, **kw):
    t = {"harness": "stv.run",
         "params": {"rule": rule, "m": m, "opts": opts, "family": sup, "cands": cands, "nmax": nmax, "W": W,
                    "strict": True, "checks": sorted(checks)},
         "sig_keys": ["rule", "opts", "m"],
         "name": f"{rule} m={m} {opts} support={[C.shape_str(s) for s in sup]}"}
    t.update(kw)
    return t
