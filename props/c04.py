"""C04 -- positional scores follow the definition exactly; Plurality/SNTV/Borda elect the top m."""
from __future__ import annotations

import itertools
from fractions import Fraction as RealFraction

from sx import core
from sx.core import eq, ne, le, lt, ge, gt, AND, OR, NOT, add, sub, mul, div, num
from sx.engine import harness
from . import common as C, families as F, c01
from .c01 import supports_of, where_raised


def make_vector(ctx, spec):
    if isinstance(spec, list):
        return list(spec)
    k = int(spec.split(":")[1])
    vec = [ctx.real(f"v{j}", lo=0) for j in range(k)]
    for a, b in zip(vec, vec[1:]):
        ctx.assume(ge(a, b))
    return vec


@harness("c04.scores")
def scores(ctx):
    import votekit.utils as U
    P = ctx.params
    cands, func = P["cands"], P["func"]
    profile, present = C.family_profile(ctx, P["family"], cands, strict=True, cand_order=P.get("cand_order"))
    n = len(cands)
    try:
        if func == "positional":
            vec = make_vector(ctx, P["vector"])
            got = U.score_profile_from_rankings(profile, vec)
            want = C.def_positional(present, cands, vec)
            tot_vec = add(*vec[:n]) if vec else 0
        elif func == "fpv":
            got = U.first_place_votes(profile)
            want = C.def_fpv(present, cands)
            tot_vec = 1
        elif func == "borda":
            got = U.borda_scores(profile)
            want = C.def_borda(present, cands)
            tot_vec = n * (n + 1) // 2
        elif func == "mentions":
            got = U.mentions(profile)
            want = C.def_mentions(present, cands)
            tot_vec = None
        else:
            raise ValueError(func)
    except Exception as exc:
        ctx.fail(f"c04:raises:{type(exc).__name__}@{where_raised(exc)}", str(exc)[:200])
        return {"kind": "exc"}
    if set(got) != set(cands):
        ctx.fail("c04:score-keys", f"{sorted(got)} vs {cands}")
        return {"kind": "bad"}
    if ctx.canary == "tie-gets-full-points":
        want = C.def_positional(present, cands, [1, 1, 1]) if func == "fpv" else want
    for c in cands:
        if not isinstance(got[c], RealFraction):
            ctx.fail("c04:not-exact-rational", f"score of {c} is a {type(got[c]).__name__}")
            return {"kind": "bad"}
        ctx.require(eq(got[c], want[c]), f"c04:{func}-score", f"score of {c}: implementation {core.show(got[c])} vs definition {core.show(want[c])}")
    if tot_vec is not None:
        ctx.require(eq(add(*[got[c] for c in cands]), mul(C.total_weight(present), tot_vec)), f"c04:{func}-points-total",
                    "points handed out do not sum to total weight times the vector total")
    # score_dict_to_ranking: groups by equal score, descending
    ranking = U.score_dict_to_ranking(got)
    groups = [sorted(g) for g in ranking]
    if sorted(c for g in groups for c in g) != sorted(cands):
        ctx.fail("c04:ranking-not-partition", f"{groups}")
    else:
        conds = []
        for g in groups:
            conds += [eq(want[g[0]], want[x]) for x in g[1:]]
        for g, h in zip(groups, groups[1:]):
            conds.append(gt(want[g[0]], want[h[0]]))
        ctx.require(AND(*conds) if conds else True, "c04:ranking-order", f"{groups} is not grouped by equal score, descending")
    return {"kind": "ok", "ranking": groups}


@harness("c04.election", extra=c01.EXTRA)
def election(ctx):
    P = ctx.params
    rule, m, opts, cands = P["rule"], P["m"], P.get("opts", {}), P["cands"]
    profile, present = C.family_profile(ctx, P["family"], cands, strict=True)
    sc = c01.deciding_scores(rule, opts, present, cands)
    try:
        e = c01.construct(rule, profile, m, opts)
    except ValueError:
        ctx.require(True, "c04:tie-valueerror (C01's subject)")
        return {"kind": "tie-valueerror"}
    except Exception as exc:
        ctx.fail(f"c04:raises:{type(exc).__name__}@{where_raised(exc)}", str(exc)[:200])
        return {"kind": "exc"}
    el_groups = [sorted(g) for g in e.get_elected()]
    el = [c for g in el_groups for c in g]
    if len(el) != m:
        ctx.fail("c04:winner-count", f"{el}")
        return {"kind": "bad"}
    lose = [c for c in cands if c not in el]
    cond = AND(*[ge(sc[a], sc[b]) for a in el for b in lose]) if lose else True
    if ctx.canary == "winners-strictly-above":
        cond = AND(*[gt(sc[a], sc[b]) for a in el for b in lose]) if lose else True
    ctx.require(cond, "c04:winners-top-m", f"elected {el}, but a non-elected candidate has a higher score")
    conds = []
    for g in el_groups:
        conds += [eq(sc[g[0]], sc[x]) for x in g[1:]]
    for g, h in zip(el_groups, el_groups[1:]):
        conds.append(ge(sc[g[0]], sc[h[0]]))
        if not e.election_states[1].tiebreaks:
            conds.append(gt(sc[g[0]], sc[h[0]]))
    ctx.require(AND(*conds) if conds else True, "c04:elected-order", f"{el_groups} not in descending score order / equal scores not reported tied")
    st0 = e.election_states[0]
    ctx.require(AND(*[eq(st0.scores[c], sc[c]) for c in cands]) if set(st0.scores) == set(cands) else False, "c04:round0-scores")
    return {"kind": "result", "states": C.states_json(e)}


def tasks(tier, seed):
    q = tier == "quick"
    out = []
    fams = [F.fam("AB>C", "A>BC", "ABC", "C>B"), F.fam("A>B", "B>A", "C", "AC>B"), F.fam("A", "B>C", "C>A>B")]
    fams4 = [F.fam("ABC>D", "A", "D>ABC", "AB>CD"), F.fam("A>B", "BCD", "D>C>B>A")]
    if not q:
        fams += F.TIED3
    def add_scores(fam, cands, func, vector=None, sizes=None, **kw):
        for sup in supports_of([fam], sizes=sizes):
            out.append({"harness": "c04.scores", "params": {"family": sup, "cands": cands, "func": func, "vector": vector},
                        "sig_keys": ["func", "vector"], "name": f"{func} {vector} {[C.shape_str(s) for s in sup]}", **kw})
    for fam in fams:
        sizes = (1, 2, len(fam)) if q else None
        for func in ("fpv", "borda", "mentions"):
            add_scores(fam, C.K3, func, sizes=sizes)
        for vec in ("sym:2", "sym:3", "sym:4", [3, 1], [2, 1, 1, 0], [5, 3, 3]):
            add_scores(fam, C.K3, "positional", vec, sizes=sizes)
    for fam in fams4:
        sizes = (1, len(fam)) if q else None
        for func in ("fpv", "borda"):
            add_scores(fam, C.K4, func, sizes=sizes)
        for vec in ("sym:4", "sym:3", [7, 4, 2, 1]):
            add_scores(fam, C.K4, "positional", vec, sizes=sizes)
    for fam in fams[:2] if q else fams:
        for sup in supports_of([fam], sizes=(2, len(fam)) if q else None):
            for m in (1, 2, 3):
                for rule, o in (("Plurality", {"tiebreak": None}), ("Plurality", {"tiebreak": "random"}),
                                ("SNTV", {"tiebreak": "borda"}), ("Borda", {"tiebreak": None}),
                                ("Borda", {"tiebreak": "first_place"}), ("Borda", {"tiebreak": "random", "score_vector": [3, 2]})):
                    out.append({"harness": "c04.election", "params": {"rule": rule, "m": m, "opts": o, "family": sup, "cands": C.K3},
                                "sig_keys": ["rule", "opts", "m"], "name": f"{rule} m={m} {o} {[C.shape_str(s) for s in sup]}"})
    out.append({"harness": "c04.scores", "params": {"family": F.fam("AB>C", "C"), "cands": C.K3, "func": "fpv", "vector": None},
                "canary": "tie-gets-full-points", "stop_on_violation": True, "name": "canary:tie-gets-full-points", "xval_stride": 0})
    out.append({"harness": "c04.election", "params": {"rule": "Plurality", "m": 1, "opts": {"tiebreak": "random"}, "family": F.fam("A", "B"), "cands": C.K3},
                "canary": "winners-strictly-above", "stop_on_violation": True, "name": "canary:winners-strictly-above", "xval_stride": 0})
    return out


META = {
    "explanation": "score_profile_from_rankings / first_place_votes / borda_scores / mentions / score_dict_to_ranking and the Plurality/SNTV/Borda constructors executed on proxies (symbolic weights, symbolic rational score vectors, and the library's own integer vectors whose tie averages are computed concretely by the real float code); z3 compares every score with the definition term",
    "assumptions": ["A-LD", "A-RND", "A-FMT", "A-PD", "float entries in user-supplied score vectors are outside the claim"],
}
