"""C11 -- ballot and profile values are exact, immutable and condense/compare by content."""
from __future__ import annotations

import itertools
from fractions import Fraction as RealFraction

from sx import core
from sx.core import eq, ne, le, lt, ge, gt, AND, OR, NOT, IFF, add, sub, mul, div, num
from sx.engine import harness
from . import common as C, families as F
from .c12 import content_key, content_map, cval
from .stv import maps_equal

# a ballot "content" spec: (ranking string or "", scores dict or None)
CONTENTS = [("A>B", None), ("A>B", {"A": 2}), ("A>B", {"A": 2, "B": 1}), ("", {"A": 2}), ("B>A", {"A": 2}), ("", None), ("A", None), ("AB>C", None)]


def mk(ctx, specs, prefix="w", positive=True, extra_kw=None):
    from votekit.ballot import Ballot
    out, rows = [], []
    for i, (rk, sc) in enumerate(specs):
        w = ctx.real(f"{prefix}{i}", lo=0, lo_strict=positive)
        kw = dict((extra_kw or {}).get(i, {}))
        if rk:
            kw["ranking"] = C.to_ranking(C.R(rk))
        if sc:
            kw["scores"] = dict(sc)
        b = Ballot(weight=w, **kw)
        out.append(b)
        rows.append(((rk, sc), w))
    return out, rows


def spec_key(rk, sc):
    r = tuple(tuple(sorted(p)) for p in C.R(rk)) if rk else ()
    s = tuple(sorted((c, str(RealFraction(v))) for c, v in (sc or {}).items() if v != 0))
    return (r, s)


def spec_map(rows):
    d = {}
    for (rk, sc), w in rows:
        k = spec_key(rk, sc)
        d[k] = add(d[k], w) if k in d else num(w)
    return d


@harness("c11.condense")
def condense(ctx):
    from votekit.pref_profile import PreferenceProfile
    P = ctx.params
    specs = [tuple(s) for s in P["specs"]]
    ballots, rows = mk(ctx, specs, extra_kw={0: {"id": "x", "voter_set": {"v"}}} if P.get("ids") else None)
    expected = spec_map(rows)
    if ctx.canary == "scores-ignored":
        expected = {}
        for (rk, sc), w in rows:
            k = spec_key(rk, None)
            expected[k] = add(expected[k], w) if k in expected else num(w)
    prof = PreferenceProfile(ballots=tuple(ballots))
    try:
        c1 = prof.condense_ballots()
        c2 = c1.condense_ballots()
    except Exception as exc:
        ctx.fail(f"c11:condense-raises:{type(exc).__name__}", str(exc)[:200])
        return {"kind": "exc"}
    keys = [content_key(b) for b in c1.ballots]
    if len(keys) != len(set(keys)):
        ctx.fail("c11:condensed-not-distinct", f"{keys}")
    got = content_map(c1.ballots)
    if set(got) - set(expected):
        ctx.fail("c11:condense-invents-content", f"{sorted(set(got) - set(expected))} from {sorted(expected)}")
        return {"kind": "bad"}
    ctx.require(maps_equal(got, expected), "c11:condense-weights", "a (ranking, scores) content does not carry its summed weight after condensing")
    ctx.require(maps_equal(content_map(c2.ballots), expected), "c11:condense-idempotent")
    if len(c2.ballots) != len(c1.ballots):
        ctx.fail("c11:condense-idempotent-count")
    # derived fields of the condensed and the original profile
    for pr, nm in ((prof, "input"), (c1, "condensed")):
        if pr.num_ballots != len(pr.ballots):
            ctx.fail("c11:num_ballots", nm)
        ctx.require(eq(pr.total_ballot_wt, add(*[w for _, w in rows])), "c11:total_ballot_wt", nm)
        cast_want = sorted({c for (rk, sc), w in rows for c in ([x for p in C.R(rk) for x in p] if rk else []) + list((sc or {}).keys())})
        if sorted(pr.candidates_cast) != cast_want:
            ctx.fail("c11:candidates_cast", f"{nm}: {sorted(pr.candidates_cast)} vs {cast_want}")
        if nm == "input" and sorted(pr.candidates) != cast_want:
            ctx.fail("c11:inferred-candidates", f"{sorted(pr.candidates)} vs {cast_want}")
    return {"kind": "ok", "n": len(c1.ballots)}


@harness("c11.compare")
def compare(ctx):
    from votekit.pref_profile import PreferenceProfile
    P = ctx.params
    sp, sq = [tuple(s) for s in P["p"]], [tuple(s) for s in P["q"]]
    bp, rp = mk(ctx, sp, prefix="p")
    bq, rq = mk(ctx, sq, prefix="q")
    mp, mq = spec_map(rp), spec_map(rq)
    Pp, Pq = PreferenceProfile(ballots=tuple(bp)), PreferenceProfile(ballots=tuple(bq))
    same = maps_equal(mp, mq)
    try:
        r1 = Pp == Pq
        r2 = Pq == Pp
    except Exception as exc:
        ctx.fail(f"c11:eq-raises:{type(exc).__name__}", str(exc)[:200])
        return {"kind": "exc"}
    for r, nm in ((r1, "P==Q"), (r2, "Q==P")):
        if r is True:
            cond = same
            if ctx.canary == "equal-means-same-ballot-count":
                cond = len(sp) == len(sq)
            ctx.require(cond, "c11:eq-true-but-contents-differ", nm)
        else:
            ctx.require(NOT(same), "c11:eq-false-but-contents-equal", nm)
    try:
        S = Pp + Pq
    except Exception as exc:
        ctx.fail(f"c11:add-raises:{type(exc).__name__}", str(exc)[:200])
        return {"kind": "exc"}
    want = dict(mp)
    for k, w in mq.items():
        want[k] = add(want[k], w) if k in want else w
    ctx.require(maps_equal(content_map(S.ballots), want), "c11:add-weights")
    ctx.require(eq(S.total_ballot_wt, add(*[w for _, w in rp + rq])), "c11:add-total")
    # dict views
    tot = add(*[w for _, w in rp])
    for std in (False, True):
        rd = Pp.to_ranking_dict(standardize=std)
        wantr = {}
        for (rk, sc), w in rp:
            k = tuple(tuple(sorted(p)) for p in C.R(rk)) if rk else ((),)
            ww = div(w, tot) if std else num(w)
            wantr[k] = add(wantr[k], ww) if k in wantr else ww
        gotr = {tuple(tuple(sorted(p)) for p in k): v for k, v in rd.items()}
        if set(gotr) != set(wantr):
            ctx.fail("c11:to_ranking_dict-keys", f"{sorted(gotr)} vs {sorted(wantr)}")
        else:
            ctx.require(AND(*[eq(gotr[k], wantr[k]) for k in wantr]), "c11:to_ranking_dict-values", f"standardize={std}")
        sd = Pp.to_scores_dict(standardize=std)
        wants = {}
        for (rk, sc), w in rp:
            k = tuple(sorted((c, str(RealFraction(v))) for c, v in (sc or {}).items() if v != 0))
            ww = div(w, tot) if std else num(w)
            wants[k] = add(wants[k], ww) if k in wants else ww
        gots = {tuple(sorted((c, cval(v)) for c, v in k)): v for k, v in sd.items()}
        if set(gots) != set(wants):
            ctx.fail("c11:to_scores_dict-keys", f"{sorted(gots)} vs {sorted(wants)}")
        else:
            ctx.require(AND(*[eq(gots[k], wants[k]) for k in wants]), "c11:to_scores_dict-values", f"standardize={std}")
        bd = Pp.to_ballot_dict(standardize=std)
        wantb = {}
        for (rk, sc), w in rp:
            k = spec_key(rk, sc)
            ww = div(w, tot) if std else num(w)
            wantb[k] = add(wantb[k], ww) if k in wantb else ww
        gotb = {}
        for b, v in bd.items():
            k = content_key(b)
            gotb[k] = add(gotb[k], v) if k in gotb else num(v)
        ctx.require(maps_equal(gotb, wantb), "c11:to_ballot_dict-values", f"standardize={std}")
    return {"kind": "ok", "eq": [bool(r1), bool(r2)]}


@harness("c11.convert")
def convert(ctx):
    """weights/scores given as int- or Fraction-valued symbolic numbers are stored unchanged; zero scores dropped"""
    from votekit.ballot import Ballot
    P = ctx.params
    w = ctx.real("w")
    sA = ctx.real("sA", snap=True)
    sB = ctx.real("sB", snap=True)
    try:
        b = Ballot(ranking=C.to_ranking(C.R("A>B")), weight=w, scores={"A": sA, "B": sB})
    except Exception as exc:
        ctx.fail(f"c11:ballot-raises:{type(exc).__name__}", str(exc)[:200])
        return {"kind": "exc"}
    ctx.require(eq(b.weight, w), "c11:weight-stored-exactly")
    if not isinstance(b.weight, RealFraction):
        ctx.fail("c11:weight-not-fraction")
    za, zb = ctx.truth(eq(sA, 0)), ctx.truth(eq(sB, 0))
    want = {}
    if not za:
        want["A"] = sA
    if not zb:
        want["B"] = sB
    if ctx.canary == "zero-scores-kept":
        want = {"A": sA, "B": sB}
    got = b.scores or {}
    if set(got) != set(want):
        ctx.fail("c11:zero-scores-not-dropped", f"stored keys {sorted(got)} expected {sorted(want)}")
        return {"kind": "bad"}
    ctx.require(AND(*[eq(got[c], want[c]) for c in want]) if want else True, "c11:scores-stored-exactly")
    return {"kind": "ok", "keys": sorted(got)}


@harness("c11.condense_sym")
def condense_sym(ctx):
    """contents that collide or not depending on symbolic score values: ballots A>B{A:s0}, A>B{A:s1}, A>B, {A:s2}
    in a given order; two ballots have the same content iff their (non-zero) scores are equal"""
    from votekit.ballot import Ballot
    from votekit.pref_profile import PreferenceProfile
    P = ctx.params
    order = P["order"]
    s = [ctx.real(f"s{i}", lo=0, snap=True) for i in range(3)]
    w = [ctx.real(f"w{i}", lo=0, lo_strict=True) for i in range(4)]
    rk = C.to_ranking(C.R("A>B"))
    mk = [lambda: Ballot(ranking=rk, scores={"A": s[0]}, weight=w[0]), lambda: Ballot(ranking=rk, scores={"A": s[1]}, weight=w[1]),
          lambda: Ballot(ranking=rk, weight=w[2]), lambda: Ballot(scores={"A": s[2], "B": 0}, weight=w[3])]
    desc = [("r", s[0]), ("r", s[1]), ("r", None), ("", s[2])]
    ballots = [mk[i]() for i in order]
    try:
        c1 = PreferenceProfile(ballots=tuple(ballots)).condense_ballots()
    except Exception as exc:
        ctx.fail(f"c11:condense-raises:{type(exc).__name__}", str(exc)[:200])
        return {"kind": "exc"}
    # group the inputs by content, deciding score equalities on this path
    groups = []  # [(has_ranking, score or None, weight)]
    for i in order:
        hr, sc = desc[i]
        if sc is not None and ctx.truth(eq(sc, 0)):
            sc = None
        for g in groups:
            if g[0] == hr and ((g[1] is None and sc is None) or (g[1] is not None and sc is not None and ctx.truth(eq(g[1], sc)))):
                g[2] = add(g[2], w[i])
                break
        else:
            groups.append([hr, sc, num(w[i])])
    out = list(c1.ballots)
    if len(out) != len(groups):
        ctx.fail("c11:condense-group-count", f"{len(out)} ballots for {len(groups)} distinct contents")
        return {"kind": "bad"}
    used = set()
    for b in out:
        hr = "r" if b.ranking else ""
        sc = (b.scores or {}).get("A")
        hit = None
        for gi, g in enumerate(groups):
            if gi in used or g[0] != hr:
                continue
            if (g[1] is None and sc is None) or (g[1] is not None and sc is not None and ctx.truth(eq(g[1], sc))):
                hit = gi
                break
        if hit is None:
            ctx.fail("c11:condense-invents-content", f"ranking={bool(b.ranking)} scores={b.scores}")
            return {"kind": "bad"}
        used.add(hit)
        cond = eq(b.weight, groups[hit][2])
        if ctx.canary == "first-weight-only":
            cond = eq(b.weight, w[order[0]])
        ctx.require(cond, "c11:condense-weights", "a content does not carry its summed weight (symbolic scores)")
    return {"kind": "ok", "n": len(out)}


def direct_clauses():
    """clauses without symbolic input: evaluated directly (not a solver claim)"""
    from sx import env
    env.import_votekit()
    from votekit.ballot import Ballot
    from votekit.pref_profile import PreferenceProfile
    probs = []
    b = Ballot(ranking=(frozenset({"A"}),), weight=RealFraction(2), scores={"A": 1}, id="i", voter_set={"v"})
    for attr in ("ranking", "weight", "voter_set", "id", "scores"):
        try:
            setattr(b, attr, None)
            probs.append(f"Ballot.{attr} could be reassigned")
        except Exception:
            pass
    p = PreferenceProfile(ballots=(b,))
    for attr in ("ballots", "candidates", "df", "candidates_cast", "num_ballots", "total_ballot_wt"):
        try:
            setattr(p, attr, None)
            probs.append(f"PreferenceProfile.{attr} could be reassigned")
        except Exception:
            pass
    try:
        PreferenceProfile(ballots=(b,), candidates=("A", "B", "A"))
        probs.append("duplicate candidates accepted")
    except ValueError:
        pass
    for x, want in ((0.1, RealFraction(1, 10)), (1 / 3, RealFraction(1, 3)), (2, RealFraction(2)), (0.5, RealFraction(1, 2)),
                    (RealFraction(3, 7), RealFraction(3, 7)), (1e-7, RealFraction(1e-7).limit_denominator())):
        bb = Ballot(weight=x, scores={"A": x})
        if bb.weight != want or not isinstance(bb.weight, RealFraction):
            probs.append(f"weight {x!r} stored as {bb.weight!r}")
        if (bb.scores or {}).get("A") != want:
            probs.append(f"score {x!r} stored as {bb.scores!r}")
    try:
        Ballot(scores={"A": "x"})
        probs.append("non-numeric score accepted")
    except TypeError:
        pass
    # equal ballots hash equal (2-valued domain per field)
    rks = [None, (frozenset({"A"}),), (frozenset({"B"}),)]
    vals = list(itertools.product(rks, [None, "i"], [None, {"A": RealFraction(1)}], [RealFraction(1), RealFraction(2)]))
    bs = [Ballot(ranking=r, id=i, scores=s, weight=w) for r, i, s, w in vals]
    for x in bs:
        for y in bs:
            if x == y and hash(x) != hash(y):
                probs.append("equal ballots with different hashes")
    return probs


def run_direct(task):
    """clauses without symbolic input, evaluated directly (labelled so in the evidence).  A failing clause is a
    violation like any other: it is written as a replay file whose replay re-evaluates the clause."""
    probs = direct_clauses()
    viol = [{"label": "c11:direct:" + p.split(":")[0][:60], "detail": p, "model": {}, "script": [], "path": 0,
             "harness": "c11.direct_replay", "params": {"max_n": task.get("max_n", 5)}} for p in probs]
    return {"task": task, "paths": 1, "decisions": 0, "queries": 0, "solver_s": 0.0, "unknown": 0, "violations": viol[:3],
            "violation_count": len(viol), "inconclusive": [], "harness_errors": [],
            "xval": 0, "xval_mismatch": [], "asserted": 1, "exhausted": True, "samples": [], "functions": {}, "patched": [],
            "extra": {"direct_clauses_evaluated": 1}}


@harness("c11.direct_replay")
def direct_replay(ctx):
    if ctx.sym:
        ctx.require(True, "noop")
        return {}
    probs = direct_clauses()
    if probs:
        raise core.ConcViolation("c11:direct", "; ".join(probs)[:400])
    return {"kind": "ok"}


def tasks(tier, seed):
    q = tier == "quick"
    out = []
    base = [CONTENTS[i] for i in (0, 1, 2, 3, 4, 5)]
    groups = [
        [CONTENTS[0], CONTENTS[1]], [CONTENTS[1], CONTENTS[0]], [CONTENTS[0], CONTENTS[1], CONTENTS[2]],
        [CONTENTS[1], CONTENTS[3], CONTENTS[4]], [CONTENTS[5], CONTENTS[0], CONTENTS[5]], [CONTENTS[0], CONTENTS[0], CONTENTS[6]],
        [CONTENTS[3], CONTENTS[3], CONTENTS[1]], [CONTENTS[7], CONTENTS[0], CONTENTS[7]],
    ]
    seen = set()
    for g in groups:
        perms = itertools.permutations(g) if (not q or len(g) <= 3) else [g]
        for perm in perms:
            key = repr(perm)
            if key in seen:
                continue
            seen.add(key)
            out.append({"harness": "c11.condense", "params": {"specs": [list(x) for x in perm], "ids": len(out) % 3 == 0},
                        "name": f"condense {[(a, b) for a, b in perm]}"})
    if not q:
        # every ordered list (with repetition) of 2 or 3 of the 8 contents, every ordered list of 4 distinct ones
        # out of the first six, and lists of 4 with one repetition
        def more():
            for k in (2, 3):
                yield from itertools.product(CONTENTS, repeat=k)
            for sub_ in itertools.combinations(base, 4):
                yield from itertools.permutations(sub_)
            for sub_ in itertools.combinations(base[:5], 3):
                for rep in sub_:
                    yield from itertools.permutations(sub_ + (rep,))
        for perm in more():
            key = repr(tuple(perm))
            if key in seen:
                continue
            seen.add(key)
            out.append({"harness": "c11.condense", "params": {"specs": [list(x) for x in perm], "ids": len(out) % 5 == 0},
                        "name": f"condense {[(a, b) for a, b in perm]}"})
        for p_, q_ in itertools.product([list(x) for k in (1, 2) for x in itertools.product(CONTENTS[:5] + [CONTENTS[6]], repeat=k)], repeat=2):
            out.append({"harness": "c11.compare", "params": {"p": [list(x) for x in p_], "q": [list(x) for x in q_]},
                        "name": f"compare {p_} vs {q_}"})
    pairs = [([CONTENTS[0], CONTENTS[6]], [CONTENTS[6], CONTENTS[0]]), ([CONTENTS[0], CONTENTS[0]], [CONTENTS[0]]),
             ([CONTENTS[0]], [CONTENTS[1]]), ([CONTENTS[1]], [CONTENTS[0]]), ([CONTENTS[0], CONTENTS[1]], [CONTENTS[1], CONTENTS[0]]),
             ([CONTENTS[3]], [CONTENTS[3], CONTENTS[3]]), ([CONTENTS[0]], [CONTENTS[6]]), ([CONTENTS[2], CONTENTS[4]], [CONTENTS[4], CONTENTS[2]]),
             ([CONTENTS[0]], [CONTENTS[0], CONTENTS[1]]), ([CONTENTS[1], CONTENTS[0]], [CONTENTS[0]]), ([CONTENTS[5]], [CONTENTS[5], CONTENTS[3]])]
    for p_, q_ in pairs:
        out.append({"harness": "c11.compare", "params": {"p": [list(x) for x in p_], "q": [list(x) for x in q_]},
                    "name": f"compare {p_} vs {q_}"})
    for order in (itertools.permutations(range(4)) if not q else [(0, 1, 2, 3), (2, 0, 3, 1), (3, 2, 1, 0), (1, 2, 0, 3)]):
        out.append({"harness": "c11.condense_sym", "params": {"order": list(order)}, "name": f"condense symbolic scores order={order}", "xval_stride": 2})
    out.append({"harness": "c11.condense_sym", "params": {"order": [0, 1, 2, 3]}, "canary": "first-weight-only", "stop_on_violation": True,
                "name": "canary:first-weight-only", "xval_stride": 0})
    out.append({"harness": "c11.convert", "params": {}, "name": "convert"})
    out.append({"kind": "call", "module": "props.c11", "func": "run_direct", "harness": "c11.direct", "name": "direct clauses (immutability, duplicates, float conversion samples, eq/hash)"})
    out.append({"harness": "c11.condense", "params": {"specs": [list(CONTENTS[1]), list(CONTENTS[0])], "ids": False}, "canary": "scores-ignored",
                "stop_on_violation": True, "name": "canary:scores-ignored", "xval_stride": 0})
    out.append({"harness": "c11.compare", "params": {"p": [list(CONTENTS[0]), list(CONTENTS[0])], "q": [list(CONTENTS[0])]}, "canary": "equal-means-same-ballot-count",
                "stop_on_violation": True, "name": "canary:equal-means-same-ballot-count", "xval_stride": 0})
    out.append({"harness": "c11.convert", "params": {}, "canary": "zero-scores-kept", "stop_on_violation": True, "name": "canary:zero-scores-kept", "xval_stride": 0})
    return out


META = {
    "explanation": "Ballot/PreferenceProfile construction, condense_ballots, ==, +, to_*_dict executed on ballots with symbolic weights over colliding contents in every order; z3 decides per-content weight sums and the truth value of == against content-map equality",
    "assumptions": ["A-LD", "A-FMT", "A-PD", "scores are concrete in the collision harnesses (weights symbolic); float->Fraction conversion is checked on sample values by direct evaluation only"],
    "direct": ["immutability of the 5 Ballot and 6 PreferenceProfile attributes", "duplicate candidate tuple rejected", "float/int/Fraction conversion on sample values", "non-numeric score -> TypeError", "equal ballots hash equal over a 2-valued domain per field"],
}
