"""C09 -- round-by-round queries on a finished election are consistent and pure."""
from __future__ import annotations

import itertools
from fractions import Fraction as RealFraction

from sx import core
from sx.core import PathBudget, eq, ne, le, lt, ge, gt, AND, OR, NOT, add, sub, mul, div, num
from sx.engine import harness
from . import common as C, families as F, c01
from .c01 import supports_of, where_raised
from .c12 import cval, content_key

QUERIES = ("get_elected", "get_eliminated", "get_remaining", "get_ranking", "get_status_df", "get_profile", "get_step")


def canon(x):
    """structural snapshot of a value (proxies by simplified term text)"""
    import pandas as pd
    from votekit.ballot import Ballot
    from votekit.pref_profile import PreferenceProfile
    from votekit.elections import ElectionState
    if isinstance(x, core.SF) or isinstance(x, RealFraction):
        return cval(x)
    if isinstance(x, (str, int, float, bool)) or x is None:
        return repr(x)
    if isinstance(x, ElectionState):
        return ("state", x.round_number, canon(x.remaining), canon(x.elected), canon(x.eliminated), canon(x.tiebreaks), canon(x.scores))
    if isinstance(x, Ballot):
        return ("ballot", content_key(x), canon(x.weight), canon(x.id), canon(x.voter_set))
    if isinstance(x, PreferenceProfile):
        return ("profile", tuple(canon(b) for b in x.ballots), tuple(sorted(x.candidates)))
    if isinstance(x, pd.DataFrame):
        return ("df", tuple(map(str, x.index)), tuple(tuple(map(str, r)) for r in x.itertuples(index=False)))
    if isinstance(x, dict):
        return ("dict", tuple(sorted((canon(k), canon(v)) for k, v in x.items())))
    if isinstance(x, (set, frozenset)):
        return ("set", tuple(sorted(canon(v) for v in x)))
    if isinstance(x, (list, tuple)):
        return ("seq", tuple(canon(v) for v in x))
    if callable(x):
        return ("callable", getattr(x, "__name__", type(x).__name__))
    return ("obj", type(x).__name__)


def snapshot(e):
    """the recorded rounds and the stored profile (what the statement says queries must leave unchanged).
    Other instance attributes are deliberately not compared: a memo cache that does not change any answer
    is not a violation; whether answers change is checked by re-asking every query at the end."""
    return {"election_states": canon(e.election_states), "_profile": (id(e._profile), canon(e._profile)),
            "length": canon(getattr(e, "length", None)), "n_states": len(e.election_states)}


def spec_elected(states, r):
    return tuple(s for st in states[:r + 1] for s in st.elected if st.elected != (frozenset(),))


def spec_eliminated(states, r):
    return tuple(s for st in states[r::-1] for s in st.eliminated[::-1] if st.eliminated != (frozenset(),))


def spec_status(states, r, cands):
    out = {c: ("Remaining", r if r > 0 else 0) for c in cands}
    for i in range(1, r + 1):
        for s in states[i].elected:
            for c in s:
                out[c] = ("Elected", i)
        for s in states[i].eliminated:
            for c in s:
                out[c] = ("Eliminated", i)
    return out


def scores_by_definition(rule, opts, profile, rows_kind, n_orig=None):
    cands = list(profile.candidates)
    if rows_kind == "score":
        tot = {c: RealFraction(0) for c in cands}
        for b in profile.ballots:
            for c, s in (b.scores or {}).items():
                tot[c] = add(tot[c], mul(b.weight, s))
        return tot
    present = C.ballots_as_present(profile)
    if rule == "Borda":
        # the rule's score function keeps the vector it was constructed with
        return C.def_positional(present, cands, opts.get("score_vector") or list(range(n_orig or len(cands), 0, -1)))
    if rule == "CondoBorda":
        return C.def_borda(present, cands)
    return C.def_fpv(present, cands)


def query(e, q, r):
    return getattr(e, q)(r)


@harness("c09.queries", extra=c01.EXTRA, path_alarm=60.0)
def queries(ctx):
    P = ctx.params
    rule, m, opts, cands = P["rule"], P["m"], P.get("opts", {}), P["cands"]
    kind = "score" if rule in c01.SCORE_RULES else "rank"
    try:
        if kind == "score":
            profile, rows = c01.build_score_profile(ctx, {"cands": cands, "nb": P["nb"], "rule": rule, "m": m, "L": opts.get("L"), "k": opts.get("k")})
            e = c01.construct_score(rule, profile, m, opts.get("L"), opts.get("k"), opts.get("tiebreak"))
        else:
            profile, present = C.family_profile(ctx, P["family"], cands, nmax=P.get("nmax"), integer_w=P.get("W"), strict=True)
            e = c01.construct(rule, profile, m, opts)
    except (Exception, PathBudget):
        ctx.require(True, "c09:construction-raised (C01's subject)")
        return {"kind": "no-election"}
    states = e.election_states
    if any(c.get("random") for c in ctx.rlog) or any(st.tiebreaks for st in states):
        ctx.require(True, "c09:random-choice-involved (outside the statement)")
        return {"kind": "random"}
    n = len(states)
    before = snapshot(e)
    out = {"kind": "ok", "rounds": n}
    first_answers = {}

    def remember(q, r, val):
        first_answers.setdefault((q, r), canon(val))

    def pure(label):
        after = snapshot(e)
        if after != before:
            diff = sorted(k for k in set(after) | set(before) if after.get(k) != before.get(k))
            ctx.fail("c09:query-mutates-election", f"{label} changed {diff}")
            return False
        return True

    for r in range(n):
        # ---- cumulative queries against the per-round records ----
        try:
            el, ou, rem, rk = e.get_elected(r), e.get_eliminated(r), e.get_remaining(r), e.get_ranking(r)
            df = e.get_status_df(r)
        except Exception as exc:
            ctx.fail(f"c09:query-raises:{type(exc).__name__}@{where_raised(exc)}", f"round {r}")
            return out
        for q_, v_ in (("get_elected", el), ("get_eliminated", ou), ("get_remaining", rem), ("get_ranking", rk), ("get_status_df", df)):
            remember(q_, r, v_)
        if el != spec_elected(states, r) or ou != spec_eliminated(states, r) or rem != tuple(states[r].remaining):
            ctx.fail("c09:cumulative-queries", f"round {r}: elected {el} eliminated {ou} remaining {rem}")
        if rk != tuple(s for s in el + rem + ou if len(s) != 0):
            ctx.fail("c09:ranking-query", f"round {r}")
        ss = spec_status(states, r, cands)
        order = [c for s in rk for c in s]
        if list(df.index) != order or any((df.at[c, "Status"], int(df.at[c, "Round"])) != ss[c] for c in order if c in ss):
            ctx.fail("c09:status_df", f"round {r}: {df.to_dict()} vs {ss}")
        for q in ("get_elected", "get_eliminated", "get_remaining", "get_ranking"):
            if canon(query(e, q, r)) != canon(query(e, q, r - n)) or canon(query(e, q, r)) != canon(query(e, q, r)):
                ctx.fail("c09:negative-index-or-repeat", f"{q}({r}) vs {q}({r - n})")
        if not pure(f"cumulative queries at round {r}"):
            return out
        # ---- replayed profile ----
        try:
            pr = e.get_profile(r)
        except Exception as exc:
            ctx.fail(f"c09:get_profile-raises:{type(exc).__name__}@{where_raised(exc)}", f"round {r}: {exc}"[:200])
            return out
        if not pure(f"get_profile({r})"):
            return out
        remember("get_profile", r, pr)
        remc = sorted(c for s in states[r].remaining for c in s)
        if ctx.canary == "profile-keeps-elected":
            remc = sorted(remc + [c for s in states[r].elected for c in s])
        if sorted(pr.candidates) != remc:
            ctx.fail("c09:profile-candidates", f"round {r}: profile has {sorted(pr.candidates)} but remaining are {remc}")
            continue
        if states[r].scores or e.score_function:
            sc = scores_by_definition(rule, opts, pr, kind, n_orig=len(cands))
            rec = states[r].scores
            if set(rec) != set(sc):
                ctx.fail("c09:rescoring-keys", f"round {r}: {sorted(rec)} vs {sorted(sc)}")
            else:
                ctx.require(AND(*[eq(rec[c], sc[c]) for c in sc]) if sc else True, "c09:rescoring", f"round {r}: re-scoring the returned profile does not reproduce the recorded tallies")
        if r in (n - 1, 1):  # get_step / negative index are thin wrappers over the same replay: two rounds suffice
            try:
                st = e.get_step(r)
                pr2 = e.get_profile(r - n) if r == n - 1 else pr
            except Exception as exc:
                ctx.fail(f"c09:get_step-raises:{type(exc).__name__}", f"round {r}")
                return out
            if canon(st[0]) != canon(pr) or st[1] is not states[r] or canon(pr2) != canon(pr):
                ctx.fail("c09:get_step", f"round {r}")
            if not pure(f"get_step({r})"):
                return out
    for q in QUERIES:
        for bad in (n, -n - 1):
            try:
                query(e, q, bad)
                ctx.fail("c09:out-of-range-accepted", f"{q}({bad}) with {n} rounds")
            except IndexError:
                pass
            except Exception as exc:
                ctx.fail(f"c09:out-of-range-wrong-error:{type(exc).__name__}", f"{q}({bad})")
    pure("out-of-range queries")
    # answers to later queries are unchanged by the whole history of queries above
    for (q, r), val in first_answers.items():
        try:
            again = canon(query(e, q, r))
        except Exception as exc:
            ctx.fail("c09:later-query-raises", f"{q}({r}) after the query history: {type(exc).__name__}")
            continue
        if again != val:
            ctx.fail("c09:later-answer-changed", f"{q}({r}) answers differently after the query history")
    pure("re-asked queries")
    if len(e) != n - 1:
        ctx.fail("c09:len")
    ctx.require(True, "c09:queries-checked")
    return out


@harness("c09.index", logic=None, int_bound=16)
def index(ctx):
    """symbolic integer round index on a concrete finished election"""
    P = ctx.params
    rule, m, opts, cands, q = P["rule"], P["m"], P.get("opts", {}), P["cands"], P["query"]
    from votekit.pref_profile import PreferenceProfile
    ballots = tuple(C.mk_ballot(C.R(s), RealFraction(w)) for s, w in P["ballots"])
    e = c01.construct(rule, PreferenceProfile(ballots=ballots, candidates=tuple(cands)), m, opts)
    n = len(e.election_states)
    r = ctx.integer("r", lo=-(n + P.get("span", 4)), hi=n + P.get("span", 4))
    inr = AND(ge(r, -n), lt(r, n))
    try:
        got = getattr(e, q)(r)
    except IndexError:
        cond = NOT(inr)
        if ctx.canary == "off-by-one-upper":
            cond = NOT(AND(ge(r, -n), le(r, n)))
        ctx.require(cond, "c09:indexerror-in-range", f"{q}")
        return {"kind": "indexerror"}
    except Exception as exc:
        ctx.fail(f"c09:index-raises:{type(exc).__name__}", f"{q}: {exc}"[:200])
        return {"kind": "exc"}
    ctx.require(inr, "c09:out-of-range-accepted", f"{q}")
    k = r.__index__() if ctx.sym else int(r)
    want = getattr(e, q)(k % n)
    if canon(got) != canon(want):
        ctx.fail("c09:index-normalisation", f"{q}({k}) != {q}({k % n})")
    return {"kind": "ok", "r": k}


def tasks(tier, seed):
    q = tier == "quick"
    out = []
    def t(rule, m, opts, sup, cands=C.K3, nmax=6, W=None, **kw):
        d = {"harness": "c09.queries", "params": {"rule": rule, "m": m, "opts": opts, "family": sup, "cands": cands, "nmax": nmax, "W": W},
             "sig_keys": ["rule", "opts", "m"], "name": f"{rule} m={m} {opts} {[C.shape_str(s) for s in sup]}", "xval_stride": 5}
        d.update(kw)
        return d
    fams3 = F.base3(q)
    o = lambda qu, s, tb=None, tr="fractional": {"quota": qu, "simultaneous": s, "transfer": tr, "tiebreak": tb}
    for i, (rule, opts, ms) in enumerate([("STV", o("droop", True), (1, 2, 3)), ("STV", o("droop", False), (1, 2)),
                                           ("SequentialRCV", {"quota": "droop", "simultaneous": False, "tiebreak": None}, (1, 2)),
                                           ("IRV", {"quota": "droop", "tiebreak": None}, (1,)),
                                           ("Alaska", dict(o("droop", True), m_1=2), (1, 2)), ("Alaska", dict(o("droop", False), m_1=3), (1, 2)),
                                           ("TopTwo", {"tiebreak": None}, (1,))]):
        fams = [fams3[i % len(fams3)]] if q else fams3
        for sup in supports_of(fams, sizes=(2, 3) if q else None):
            for m in (ms[-1:] if q and len(sup) == 3 else ms):
                out.append(t(rule, m, opts, sup, weight=2 * len(sup), split=3 if (rule == "Alaska" and len(sup) >= 3) else 0))
    # the default-election corner needs four candidates (two elected by default in the last round)
    f4 = F.fam("A", "B", "C", "D", "A>B")
    for sup in supports_of([f4], sizes=(4, 5) if q else None):
        out.append(t("STV", 3, o("droop", True), sup, cands=C.K4, nmax=8, weight=3 * len(sup), split=4))
    for fam in F.tied3(q):
        for sup in supports_of([fam], sizes=(len(fam), 1) if q else None):
            for m in (1, 2):
                out.append(t("Plurality", m, {"tiebreak": None}, sup))
                out.append(t("Borda", m, {"tiebreak": None}, sup))
            out.append(t("SNTV", 1, {"tiebreak": None}, sup))
    for fam in fams3[:2]:
        for sup in supports_of([fam], sizes=(len(fam), 2) if q else None):
            out.append(t("DominatingSets", 1, {}, sup))
            for m in (1, 2):
                out.append(t("CondoBorda", m, {}, sup))
    for sup in supports_of([F.fam("A>B>C", "B>C>A", "C>A>B")], sizes=(1, 2, 3)):
        for m in (1, 2):
            out.append(t("PluralityVeto", m, {"tiebreak": None}, sup, nmax=3, W=2))
    for rule, L, k in (("Rating", 2, None), ("Approval", None, None), ("Limited", None, 2), ("Cumulative", None, None), ("BlocPlurality", None, None)):
        out.append({"harness": "c09.queries", "params": {"rule": rule, "m": 2, "opts": {"L": L, "k": k, "tiebreak": None}, "cands": C.K3, "nb": 2},
                    "sig_keys": ["rule", "m"], "name": f"{rule} m=2", "split": 3, "weight": 10, "xval_stride": 4})
    # symbolic round index on concrete finished elections
    conc = [("STV", 2, o("droop", True), [("A>B", 3), ("B>C", 2), ("C", 2), ("A", 1)]), ("Plurality", 1, {"tiebreak": None}, [("A>B", 3), ("B", 2), ("C", 1)]),
            ("Alaska", 1, dict(o("droop", True), m_1=2), [("A>B", 3), ("B>C", 2), ("C>A", 1)]), ("TopTwo", 1, {"tiebreak": None}, [("A>B", 3), ("B>C", 2), ("C>A", 1)]),
            ("Borda", 2, {"tiebreak": None}, [("A>B", 3), ("B>C", 2), ("C", 1)]), ("DominatingSets", 1, {}, [("A>B>C", 3), ("B>C", 2)])]
    for rule, m, opts, bl in conc if not q else conc[:4]:
        for qn in QUERIES:
            out.append({"harness": "c09.index", "params": {"rule": rule, "m": m, "opts": opts, "cands": C.K3, "ballots": bl, "query": qn, "span": 4},
                        "sig_keys": ["rule", "query"], "name": f"index {rule}.{qn}(r)"})
    out.append({"harness": "c09.index", "params": {"rule": "Plurality", "m": 1, "opts": {"tiebreak": None}, "cands": C.K3, "ballots": conc[1][3], "query": "get_elected", "span": 4},
                "canary": "off-by-one-upper", "stop_on_violation": True, "name": "canary:off-by-one-upper", "xval_stride": 0})
    out.append(t("STV", 2, o("droop", True), F.fam("A>B", "B"), canary="profile-keeps-elected", stop_on_violation=True, name="canary:profile-keeps-elected", xval_stride=0))
    return out


META = {
    "explanation": "finished elections of every rule built on proxies; for every round the replayed profile, its re-scoring by definition, the cumulative queries, negative indices and out-of-range errors are checked; purity as one inductive step: a structural snapshot of the whole object is compared before and after each single query (any sequence of queries then leaves the election unchanged); symbolic integer round index decided by z3 on concrete finished elections",
    "assumptions": ["A-LD", "A-RND", "A-FMT", "A-PD", "paths with a recorded tiebreak or any random draw are outside the statement and skipped",
                    "symbolic round index bounded to [-(len+4), len+4]"],
}
