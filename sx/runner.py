"""Parent side: build the task list of a property, run it on a process pool, replay
counterexamples in fresh interpreters, match known findings, write evidence, set the exit code.

exit 0  every tree exhausted, all validity queries unsat (or only known findings), canaries sat
exit 1  replay-confirmed counterexample not listed in known_findings.json (prints VIOLATION ...)
exit 2  inconclusive / harness error (never success)
"""
from __future__ import annotations

import concurrent.futures as cf
import hashlib
import importlib
import json
import os
import re
import subprocess
import sys
import time

ROOT = os.path.dirname(os.path.dirname(os.path.abspath(__file__)))
DEPS = os.path.join(ROOT, ".deps")
REPLAYS = os.path.join(ROOT, "replays")
EVID = os.path.join(ROOT, "evidence")


def _bootstrap():
    if not os.path.exists(os.path.join(DEPS, ".ok")):
        r = subprocess.run([os.path.join(ROOT, "setup.sh")])
        if r.returncode != 0:
            print("setup failed", file=sys.stderr)
            sys.exit(2)
    if os.environ.get("PYTHONHASHSEED") != "0" and not os.environ.get("SX_KEEP_HASHSEED"):
        env = dict(os.environ, PYTHONHASHSEED="0")
        os.execve(sys.executable, [sys.executable, "-m", "sx.runner"] + sys.argv[1:], env)
    if DEPS not in sys.path:
        sys.path.append(DEPS)
    if ROOT not in sys.path:
        sys.path.insert(0, ROOT)


def _worker_init(stop=None):
    if stop is not None:
        from sx import engine
        engine.STOP = stop
    if DEPS not in sys.path:
        sys.path.append(DEPS)
    if ROOT not in sys.path:
        sys.path.insert(0, ROOT)
    try:
        import resource
        resource.setrlimit(resource.RLIMIT_AS, (6 << 30, 6 << 30))
    except Exception:
        pass


def _run_task(task):
    from sx import engine
    flag = os.environ.get("SX_TEST_CRASH_ONCE")  # self-test of the dead-worker recovery: path of a flag file
    if flag and task.get("index") == 5 and not os.path.exists(flag):
        open(flag, "w").close()
        os._exit(9)
    try:
        if task.get("kind") == "call":
            mod = importlib.import_module(task["module"])
            return getattr(mod, task["func"])(task)
        return engine.run_task(task)
    except BaseException as e:  # worker must always answer
        import traceback
        return {"task": task, "fatal": "".join(traceback.format_exception(e))[-3000:]}


def load_known():
    p = os.path.join(ROOT, "known_findings.json")
    if not os.path.exists(p):
        return []
    return json.load(open(p))


def sig_of(task, label):
    params = dict(task.get("params", {}))
    key = {k: v for k, v in params.items() if k in task.get("sig_keys", ())}
    return {"harness": task["harness"], "label": label, "params": key}


def known_match(prop, sig, known):
    for k in known:
        if k.get("property") != prop or k.get("status") != "known":
            continue
        m = k["match"]
        if m.get("harness") and m["harness"] != sig["harness"]:
            continue
        if m.get("label") and not re.fullmatch(m["label"], sig["label"]):
            continue
        if _subset(m.get("params") or {}, sig["params"]):
            return k
    return None


def _subset(pat, val):
    """every key of `pat` is present in `val` with an equal (recursively: subset) value"""
    if isinstance(pat, dict):
        return isinstance(val, dict) and all(k in val and _subset(v, val[k]) for k, v in pat.items())
    return pat == val


def write_replay(prop, task, viol):
    os.makedirs(REPLAYS, exist_ok=True)
    body = {"property": prop, "harness": viol.get("harness", task["harness"]), "params": viol.get("params", task.get("params", {})),
            "model": viol["model"], "script": viol["script"], "label": viol["label"],
            "detail": viol.get("detail", ""), "pythonhashseed": "0"}
    h = hashlib.sha256(json.dumps(body, sort_keys=True, default=str).encode()).hexdigest()[:12]
    path = os.path.join(REPLAYS, f"{prop}-{h}.json")
    with open(path, "w") as f:
        json.dump(body, f, indent=1, default=str)
    return path


def run_replay(path, timeout=120):
    env = dict(os.environ, PYTHONHASHSEED="0")
    try:
        r = subprocess.run([sys.executable, "-m", "sx.replay", path, "--quiet"], cwd=ROOT, env=env,
                           capture_output=True, text=True, timeout=timeout)
    except subprocess.TimeoutExpired:
        return {"reproduced": False, "why": "replay timeout"}
    for line in r.stdout.splitlines()[::-1]:
        if line.startswith("{"):
            try:
                return json.loads(line)
            except Exception:
                pass
    return {"reproduced": False, "why": "no result: " + (r.stdout + r.stderr)[-800:]}


def expand_splits(tasks):
    """a task with "split": d is partitioned into 2^d shards of its decision tree"""
    import itertools
    out = []
    for t in tasks:
        d = t.get("split", 0)
        if not d or t.get("canary"):
            out.append(t)
            continue
        for bits in itertools.product((1, 0), repeat=d):
            s = dict(t)
            s["shard"] = list(bits)
            s["name"] = f"{t.get('name', t.get('harness'))} shard={''.join(map(str, bits))}"
            s["weight"] = t.get("weight", 1) / (2 ** d) * 2
            s["no_assert_ok"] = True
            out.append(s)
    return out


def main(argv=None):
    _bootstrap()
    argv = list(sys.argv[1:] if argv is None else argv)
    if argv and argv[0] == "--replay":
        from sx import replay
        sys.exit(replay.main(argv[1:]))
    if len(argv) < 1:
        print("usage: check <id> [quick|thorough] | --replay <file>")
        sys.exit(2)
    prop = argv[0].upper()
    tier = (argv[1] if len(argv) > 1 else os.environ.get("VERIF_TIER", "quick")).lower()
    seed = int(os.environ.get("VERIF_SEED", "0") or 0)
    only = os.environ.get("SX_ONLY")  # development aid: substring filter on task names
    t0 = time.time()
    mod = importlib.import_module("props." + prop.lower())
    tasks = mod.tasks(tier, seed)
    if only:
        tasks = [t for t in tasks if only in json.dumps(t, default=str)]
    tasks = expand_splits(tasks)
    for i, t in enumerate(tasks):
        t["index"] = i
    nproc = int(os.environ.get("SX_PROCS", "16"))
    results = [None] * len(tasks)
    order = sorted(range(len(tasks)), key=lambda i: -tasks[i].get("weight", 1))
    import multiprocessing
    stop = multiprocessing.Event()
    known = load_known()
    tasks_with_new = 0
    stop_after = int(os.environ.get("SX_STOP_AFTER", "8"))  # tasks with unlisted counterexamples before the rest is abandoned
    # A worker can die abruptly (z3 has segfaulted once in ~10^7 queries here); that breaks the whole pool.  The
    # unfinished tasks are then re-submitted to a fresh pool, at most twice; a task that is still unfinished after
    # that is reported as a worker failure (inconclusive).
    pending = list(order)
    for attempt in range(3):
        if not pending:
            break
        order = pending
        with cf.ProcessPoolExecutor(max_workers=max(1, min(nproc, len(tasks) or 1)), initializer=_worker_init, initargs=(stop,)) as pool:
            futs = {pool.submit(_run_task, tasks[i]): i for i in order}
            for f in cf.as_completed(futs):
                i = futs[f]
                try:
                    results[i] = f.result()
                except cf.CancelledError:
                    results[i] = {"task": tasks[i], "skipped": True}
                except BaseException as e:
                    results[i] = {"task": tasks[i], "fatal": repr(e)}
                # Once several tasks have produced counterexamples that no known finding lists, the verdict can only be
                # "violation" (if they replay) or "inconclusive": abandon the remaining tasks instead of exploring trees
                # that a broken implementation may have made arbitrarily large.
                r = results[i]
                if not tasks[i].get("canary") and not stop.is_set() and any(
                        v["label"] != "nontermination" and known_match(prop, sig_of(tasks[i], v["label"]), known) is None
                        for v in r.get("violations", [])):  # a tripped path alarm proves nothing before its replay
                    tasks_with_new += 1
                    if tasks_with_new >= stop_after:
                        stop.set()
                        for g in futs:
                            g.cancel()
                if os.environ.get("SX_VERBOSE"):
                    r = results[i]
                    print(f"[{time.time()-t0:6.1f}s] task {i} {tasks[i].get('name', tasks[i].get('harness'))}: "
                          f"paths={r.get('paths')} viol={r.get('violation_count')} exh={r.get('exhausted')} "
                          f"{'FATAL ' + r['fatal'][-300:] if 'fatal' in r else ''}"
                          f"{' HE ' + str(r['harness_errors'][:1]) if r.get('harness_errors') else ''}"
                          f"{' INC ' + str(r['inconclusive'][:1]) if r.get('inconclusive') else ''}", flush=True)
        pending = [i for i in order if results[i] is not None and "BrokenProcessPool" in str(results[i].get("fatal", ""))]
        if stop.is_set():
            break
        for i in pending:
            results[i] = None if attempt < 2 else results[i]
        if attempt == 2:
            pending = []
    return finish(prop, tier, seed, mod, tasks, results, t0)


def finish(prop, tier, seed, mod, tasks, results, t0):
    known = load_known()
    problems = []  # reasons for exit 2
    viol_groups = {}  # sig-json -> list[(task, viol)]
    canary_status = {}
    tot = dict(paths=0, decisions=0, queries=0, solver_s=0.0, unknown=0, xval=0, asserted=0, violations=0)
    functions = {}
    patched = set()
    samples = []
    outcome_kinds = {}
    labels_reached = {}
    extra_cov = {}
    exhaustive = True
    for task, r in zip(tasks, results):
        name = task.get("name", task.get("harness"))
        if r is not None and r.get("skipped"):
            exhaustive = False
            extra_cov["tasks_abandoned_after_violations"] = extra_cov.get("tasks_abandoned_after_violations", 0) + 1
            continue
        if r is None or "fatal" in r:
            problems.append(f"task {name}: worker failure {(r or {}).get('fatal', '')[-400:]}")
            continue
        for k in ("paths", "decisions", "queries", "solver_s", "unknown", "xval", "asserted"):
            tot[k] += r.get(k, 0)
        for k, v in r.get("outcome_kinds", {}).items():
            outcome_kinds[k] = outcome_kinds.get(k, 0) + v
        for k, v in r.get("labels_reached", {}).items():
            labels_reached[k] = labels_reached.get(k, 0) + v
        for k, v in r.get("extra", {}).items():
            if isinstance(v, (int, float)):
                extra_cov[k] = extra_cov.get(k, 0) + v
            else:
                extra_cov.setdefault(k, v)
        functions.update(r.get("functions", {}))
        patched.update(r.get("patched", []))
        if r.get("samples") and len(samples) < 6 and not task.get("canary"):
            s = dict(r["samples"][0])
            s["task"] = name
            samples.append(s)
        if task.get("canary"):
            ok = r.get("violation_count", 0) > 0
            canary_status[f"{name}"] = "sat (detected)" if ok else "NOT DETECTED"
            if not ok:
                problems.append(f"canary {name} was not detected: the harness cannot see that class of bug")
            continue
        if r.get("stopped"):
            exhaustive = False
            extra_cov["tasks_abandoned_after_violations"] = extra_cov.get("tasks_abandoned_after_violations", 0) + 1
        elif not r.get("exhausted", False):
            exhaustive = False
            problems.append(f"task {name}: decision tree not exhausted ({r.get('paths')} paths)")
        if r.get("unknown") or r.get("inconclusive"):
            problems.append(f"task {name}: solver unknown/inconclusive {r.get('inconclusive', [])[:2]}")
        if r.get("harness_errors"):
            problems.append(f"task {name}: harness error {r['harness_errors'][0][-600:]}")
        if r.get("xval_mismatch"):
            problems.append(f"task {name}: symbolic/concrete divergence {json.dumps(r['xval_mismatch'][0], default=str)[:600]}")
        if r.get("asserted", 0) == 0 and not task.get("no_assert_ok") and not r.get("stopped"):
            problems.append(f"task {name}: no assertion reached (vacuous)")
        tot["violations"] += r.get("violation_count", 0)
        for v in r.get("violations", []):
            s = sig_of(task, v["label"])
            viol_groups.setdefault(json.dumps(s, sort_keys=True), []).append((task, v))

    # replay counterexamples (fresh interpreter, no proxies) -- at most 2 per signature
    jobs = []
    for sk, lst in viol_groups.items():
        for task, v in lst[:2]:
            jobs.append((sk, task, v, write_replay(prop, task, v)))
    with cf.ThreadPoolExecutor(max_workers=16) as tp:
        reps = list(tp.map(lambda j: run_replay(j[3]), jobs))
    new_violations = []
    known_hit = {}
    for (sk, task, v, path), rep in zip(jobs, reps):
        s = json.loads(sk)
        if not rep.get("reproduced"):
            problems.append(f"counterexample for {s['harness']}:{s['label']} did not reproduce concretely "
                            f"({rep.get('why', rep)}) replay={path}")
            continue
        k = known_match(prop, s, known)
        if k is not None:
            known_hit.setdefault(k["description"], []).append(path)
        else:
            new_violations.append((s, path, rep))
    out_lines = []
    for desc, paths in known_hit.items():
        out_lines.append(f"KNOWN-FINDING: property={prop} {desc}")
    seen = set()
    for s, path, rep in new_violations:
        key = json.dumps(s, sort_keys=True)
        if key in seen:
            continue
        seen.add(key)
        out_lines.append(f"VIOLATION property={prop} replay={path}")
        out_lines.append(f"  what: {s['harness']} label={s['label']} params={json.dumps(s['params'])} :: {rep.get('detail', '')[:300]}")

    meta = getattr(mod, "META", {})
    direct = []
    wall = time.time() - t0
    status = 1 if new_violations else (2 if problems else 0)
    evidence = {
        "property_id": prop, "tier": tier if tier in ("quick", "thorough") else "quick", "seed": seed,
        "level": "model_checking",
        "coverage": {
            "states": max(tot["paths"], 0), "transitions": max(tot["decisions"], 0),
            "traces_validated_against_impl": tot["xval"],
            "samples": samples or [{"note": "no sample recorded"}],
            "exhaustive": bool(exhaustive and not problems),
            "explanation": meta.get("explanation", ""),
            "tasks": len(tasks), "assertions_reached": tot["asserted"],
            "solver_queries": tot["queries"], "solver_seconds": round(tot["solver_s"], 2),
            "solver_unknown": tot["unknown"], "outcome_kinds": outcome_kinds,
            "functions_encoded": functions, "patched_globals": sorted(patched),
            "bounds": meta.get("bounds", {}).get(tier, meta.get("bounds", {})),
            "stubs": meta.get("stubs", []), "canaries": canary_status,
            "labels_reached": labels_reached,
            "direct_evaluation_clauses": meta.get("direct", []),
            "known_findings_matched": sorted(known_hit),
            "counterexamples_found": tot["violations"],
            "inconclusive_reasons": problems[:20],
            "verdict": {0: "held within bounds", 1: "violation", 2: "inconclusive"}[status],
            **extra_cov,
        },
        "assumptions": meta.get("assumptions", []),
        "wall_s": round(wall, 2),
        "violations": len(seen),
    }
    if evidence["coverage"]["states"] < 1:
        evidence["coverage"]["states"] = 1
    if evidence["coverage"]["transitions"] < 1:
        evidence["coverage"]["transitions"] = 1
    # runs against a scratch copy of the library (VOTEKIT_SRC: mutants, seeded changes) never touch the
    # evidence of /repo itself
    evid = EVID if "VOTEKIT_SRC" not in os.environ else os.path.join("/var/tmp", "sx_scratch_evidence")
    evidence["coverage"]["source_tree"] = os.environ.get("VOTEKIT_SRC", "/repo/src")
    os.makedirs(evid, exist_ok=True)
    with open(os.path.join(evid, f"{prop}.json"), "w") as f:
        json.dump(evidence, f, indent=1, default=str)
    for l in out_lines:
        print(l)
    print(f"{prop} {tier}: tasks={len(tasks)} paths={tot['paths']} decisions={tot['decisions']} queries={tot['queries']} "
          f"solver_s={tot['solver_s']:.1f} xval={tot['xval']} counterexamples={tot['violations']} "
          f"known={len(known_hit)} new={len(seen)} wall={wall:.1f}s")
    if problems:
        print("INCONCLUSIVE:")
        for p in problems[:15]:
            print("  -", p)
    sys.exit(status)


if __name__ == "__main__":
    main()
