"""Factor-aware normalisation of rational-function terms with exact polynomial arithmetic.

A z3 Real term built from + - * / (and integer powers) is rewritten as  N / prod(F_i^{m_i})  where N
and the F_i are polynomials in canonical form (dict monomial -> Fraction) and the denominator is kept
as a multiset of normalised factors (least common multiples instead of blind products).  An equality
between two rational functions becomes one polynomial identity  P == 0 ; the polynomial is handed to
z3 in canonical expanded form, so a true identity is the trivial query `0 != 0` and a false one is a
low-degree nlsat problem (direct QF_NRA on nested divisions times out)."""
from __future__ import annotations

from collections import Counter
from fractions import Fraction

import z3


class Poly:
    __slots__ = ("t",)

    def __init__(self, terms=None):
        self.t = {k: v for k, v in (terms or {}).items() if v != 0}

    @staticmethod
    def const(c):
        return Poly({(): Fraction(c)})

    @staticmethod
    def var(name):
        return Poly({((name, 1),): Fraction(1)})

    def __add__(self, o):
        r = dict(self.t)
        for k, v in o.t.items():
            r[k] = r.get(k, 0) + v
        return Poly(r)

    def __neg__(self):
        return Poly({k: -v for k, v in self.t.items()})

    def __sub__(self, o):
        return self + (-o)

    def __mul__(self, o):
        r = {}
        for k1, v1 in self.t.items():
            for k2, v2 in o.t.items():
                d = dict(k1)
                for n, e in k2:
                    d[n] = d.get(n, 0) + e
                k = tuple(sorted(d.items()))
                r[k] = r.get(k, 0) + v1 * v2
        return Poly(r)

    def scale(self, c):
        return Poly({k: v * c for k, v in self.t.items()})

    def evaluate(self, vals):
        """exact value at a point {name: Fraction}"""
        tot = Fraction(0)
        for mono, c in self.t.items():
            v = c
            for name, e in mono:
                v *= vals[name] ** e
            tot += v
        return tot

    def is_zero(self):
        return not self.t

    def is_const(self):
        return all(k == () for k in self.t)

    def const_value(self):
        return self.t.get((), Fraction(0))

    def key(self):
        return tuple(sorted(self.t.items()))

    def lead(self):
        return self.t[max(self.t)]

    def degree(self):
        return max((sum(e for _, e in k) for k in self.t), default=0)


class Normaliser:
    def __init__(self):
        self.F = {}  # factor key -> Poly (normalised: leading coefficient 1)
        self.cache = {}
        self.atoms = {}  # opaque sub-terms -> z3 term (by generated variable name)
        self.vars = {}

    # -- conversion ------------------------------------------------------
    def fac(self, p):
        """normalise a denominator polynomial: returns (key, constant) with p == constant * F[key]"""
        c = p.lead()
        q = p.scale(1 / c)
        k = q.key()
        self.F[k] = q
        return k, c

    def dprod(self, d):
        r = Poly.const(1)
        for k, m in d.items():
            for _ in range(m):
                r = r * self.F[k]
        return r

    @staticmethod
    def lcm(a, b):
        c = Counter(a)
        for k, m in b.items():
            c[k] = max(c[k], m)
        return c

    @staticmethod
    def sub(a, b):
        c = Counter(a)
        c.subtract(b)
        return +c

    def nd(self, e):
        k = e.get_id()
        if k in self.cache:
            return self.cache[k]
        r = self._nd(e)
        self.cache[k] = r
        return r

    def _nd(self, e):
        if z3.is_rational_value(e) or z3.is_int_value(e):
            return (Poly.const(Fraction(e.as_fraction()) if z3.is_rational_value(e) else e.as_long()), Counter())
        kind = e.decl().kind()
        ch = e.children()
        if kind == z3.Z3_OP_UNINTERPRETED and not ch:
            self.vars[str(e)] = e
            return (Poly.var(str(e)), Counter())
        if kind == z3.Z3_OP_TO_REAL:
            return self.nd(ch[0])
        if kind in (z3.Z3_OP_ADD, z3.Z3_OP_SUB) and ch:
            parts = [self.nd(c) for c in ch]
            L = Counter()
            for _, d in parts:
                L = self.lcm(L, d)
            n = None
            for i, (pn, pd) in enumerate(parts):
                t = pn * self.dprod(self.sub(L, pd))
                n = t if n is None else (n + t if kind == z3.Z3_OP_ADD else n - t)
            return (n, L)
        if kind == z3.Z3_OP_UMINUS:
            n, d = self.nd(ch[0])
            return (-n, d)
        if kind == z3.Z3_OP_MUL:
            n = Poly.const(1)
            d = Counter()
            for c in ch:
                n2, d2 = self.nd(c)
                n = n * n2
                d = d + d2
            return (n, d)
        if kind == z3.Z3_OP_DIV:
            n1, d1 = self.nd(ch[0])
            n2, d2 = self.nd(ch[1])
            if n2.is_zero():
                raise ZeroDivisionError("division by the zero polynomial")
            if n2.is_const():
                return (n1.scale(1 / n2.const_value()) * self.dprod(d2), d1)
            f, c = self.fac(n2)
            return ((n1 * self.dprod(d2)).scale(1 / c), d1 + Counter({f: 1}))
        if kind == z3.Z3_OP_POWER and len(ch) == 2 and z3.is_int_value(z3.simplify(ch[1])):
            p = z3.simplify(ch[1]).as_long()
            n1, d1 = self.nd(ch[0])
            n = Poly.const(1)
            d = Counter()
            for _ in range(p):
                n = n * n1
                d = d + d1
            return (n, d)
        # opaque atom (If-terms etc.)
        name = f"_atom{e.get_id()}"
        self.atoms[name] = e
        self.vars[name] = z3.Real(name)
        return (Poly.var(name), Counter())

    # -- back to z3 ------------------------------------------------------
    def to_z3(self, p: Poly):
        if p.is_zero():
            return z3.RealVal(0)
        terms = []
        for mono, c in sorted(p.t.items()):
            t = z3.Q(c.numerator, c.denominator)
            for name, e in mono:
                v = self.atoms.get(name)
                v = v if v is not None else self.vars.get(name, z3.Real(name))
                for _ in range(e):
                    t = t * v
            terms.append(t)
        return z3.Sum(terms) if len(terms) > 1 else terms[0]

    def diff_poly(self, a, b) -> Poly:
        """polynomial P with  a == b  <=>  P == 0  (where all denominator factors are non-zero)"""
        na, da = self.nd(a)
        nb, db = self.nd(b)
        L = self.lcm(da, db)
        return na * self.dprod(self.sub(L, da)) - nb * self.dprod(self.sub(L, db))

    def neq(self, a, b):
        p = self.diff_poly(a, b)
        self.last_degree = p.degree()
        self.last_terms = len(p.t)
        if p.is_zero():
            return z3.RealVal(0) != z3.RealVal(0)
        return self.to_z3(p) != 0

    def denominators_nonzero(self, *terms):
        """every denominator factor met while normalising the given terms is non-zero"""
        keys = set()
        for t in terms:
            _, d = self.nd(t)
            keys |= set(d)
        return [self.to_z3(self.F[k]) != 0 for k in keys]
