"""Environment: importing the real VoteKit from the working tree, and swapping module globals
(Fraction / random / np / math / pd) between the symbolic world, the scripted-concrete world and
the untouched original."""
from __future__ import annotations

import builtins
import hashlib
import inspect
import itertools
import math as real_math
import os
import random as real_random
import sys
import types
from fractions import Fraction as RealFraction

import z3

from . import core
from .core import SF, Z0, Z1, lift, HarnessError

SRC = os.environ.get("VOTEKIT_SRC", "/repo/src")


def import_votekit():
    """Import votekit from the working tree (never the wheel in /venv)."""
    if "ot" not in sys.modules:  # POT is not installed; only earth_mover_dist uses it
        sys.modules["ot"] = types.ModuleType("ot")
    if SRC not in sys.path:
        sys.path.insert(0, SRC)
    import votekit  # noqa
    import votekit.elections  # noqa
    import votekit.cleaning  # noqa
    import votekit.graphs  # noqa
    import votekit.cvr_loaders  # noqa
    import votekit.utils  # noqa
    import votekit.pref_interval  # noqa
    import votekit.metrics  # noqa
    import votekit.ballot_generator  # noqa  (must be loaded before any World.enter so its globals get stubbed)
    f = os.path.realpath(votekit.__file__)
    if not f.startswith(os.path.realpath(SRC) + os.sep):
        raise HarnessError(f"wrong votekit imported: {f}")
    return votekit


def import_generators():
    import_votekit()
    import votekit.ballot_generator  # noqa
    import votekit.metrics  # noqa
    return sys.modules["votekit.ballot_generator"]


def votekit_modules():
    return [m for n, m in list(sys.modules.items()) if (n == "votekit" or n.startswith("votekit.")) and m is not None]


# ----------------------------------------------------------------------------
# stubs
# ----------------------------------------------------------------------------
class SymUniform:
    """A uniform(lo0,hi0) draw; every comparison with a threshold is a fork weighted by the
    conditional interval length."""

    def __init__(self, ctx, lo=0, hi=1):
        self.ctx = ctx
        self.lo = core.num(lo)
        self.hi = core.num(hi)

    def _le(self, t):
        ctx = self.ctx
        # float thresholds such as 1/(c-1) stand for the rational they approximate (real abstraction)
        t = core.num(t) if not isinstance(t, float) else core.num(RealFraction(t).limit_denominator(10**9))
        if ctx.truth(core.le(t, self.lo)):
            return False
        if ctx.truth(core.ge(t, self.hi)):
            return True
        width = core.sub(self.hi, self.lo)
        if ctx.choose(2) == 0:
            ctx.prob = core.mul(ctx.prob, core.div(core.sub(t, self.lo), width))
            self.hi = t
            return True
        ctx.prob = core.mul(ctx.prob, core.div(core.sub(self.hi, t), width))
        self.lo = t
        return False

    def __le__(self, t):
        return self._le(t)

    def __lt__(self, t):
        return self._le(t)

    def __gt__(self, t):
        return not self._le(t)

    def __ge__(self, t):
        return not self._le(t)

    def __float__(self):
        raise HarnessError("float() of a symbolic uniform draw")


def _distinct(pop):
    """group a population by object identity: [(representative, [indices])]"""
    groups = {}
    order = []
    for i, x in enumerate(pop):
        k = id(x)
        if k not in groups:
            groups[k] = (x, [])
            order.append(k)
        groups[k][1].append(i)
    return [groups[k] for k in order]


class RandomStub:
    """Stands for the `random` module inside modules under test.  Every call forks over all
    outcomes its documented contract allows (ctx.choose) and multiplies ctx.prob by the
    outcome's probability; calls are logged in ctx.rlog."""

    def __init__(self, ctx):
        self.ctx = ctx

    def _log(self, fn, **kw):
        # "random": did the call have more than one possible outcome?
        now = getattr(self.ctx, "real_choices", 0)
        self.ctx.rlog.append(dict(fn=fn, random=now > self._mark or fn == "uniform", **kw))
        self._mark = now

    _mark = 0

    def seed(self, *a, **k):
        pass

    def sample(self, population, k=None, *, counts=None):
        ctx = self.ctx
        self._mark = getattr(ctx, "real_choices", 0)
        pop = list(population)
        if k is None:
            raise TypeError("sample() missing k")
        if k < 0 or k > len(pop):
            ctx.notes["sample_overdraw"] = (len(pop), k)
            raise ValueError("Sample larger than population or is negative")
        full = list(pop)
        out = []
        for _ in range(k):
            groups = _distinct(pop)
            j = ctx.choose(len(groups))
            rep, idx = groups[j]
            ctx.prob = core.mul(ctx.prob, RealFraction(len(idx), len(pop)))
            out.append(rep)
            pop.pop(idx[0])
        self._log("sample", population=full, k=k, outcome=list(out))
        return out

    def shuffle(self, x):
        perm = self.sample(list(x), len(x))
        x[:] = perm

    def choices(self, population, weights=None, *, cum_weights=None, k=1):
        ctx = self.ctx
        self._mark = getattr(ctx, "real_choices", 0)
        pop = list(population)
        given_weights = weights is not None
        if weights is None:
            weights = [1] * len(pop)
        weights = list(weights)
        if weights is not None and len(weights) != len(pop):
            raise ValueError("The number of weights does not match the population")
        if not pop and (given_weights or k > 0):
            raise IndexError("list index out of range")  # what CPython's random.choices does
        out = []
        for _ in range(k):
            live = [i for i in range(len(pop)) if ctx.truth(core.gt(weights[i], 0))]
            if not live:
                raise ValueError("Total of weights must be greater than zero")
            tot = core.add(*[weights[i] for i in live])
            j = ctx.choose(len(live))
            i = live[j]
            ctx.prob = core.mul(ctx.prob, core.div(weights[i], tot))
            out.append(pop[i])
        self._log("choices", population=pop, weights=weights, outcome=list(out))
        return out

    def choice(self, seq):
        seq = list(seq)
        if not seq:
            raise IndexError("Cannot choose from an empty sequence")
        self._mark = getattr(self.ctx, "real_choices", 0)
        i = self.ctx.choose(len(seq))
        self.ctx.prob = core.mul(self.ctx.prob, RealFraction(1, len(seq)))
        self._log("choice", population=seq, outcome=seq[i])
        return seq[i]

    def uniform(self, a, b):
        u = SymUniform(self.ctx, a, b)
        self._log("uniform", a=a, b=b, outcome=u)
        return u

    def random(self):
        return self.uniform(0, 1)

    def randint(self, a, b):
        i = self.ctx.choose(b - a + 1)
        self.ctx.prob = core.mul(self.ctx.prob, RealFraction(1, b - a + 1))
        return a + i

    def randrange(self, start, stop=None, step=1):
        if stop is None:
            start, stop = 0, start
        vals = list(range(int(start), int(stop), int(step)))
        if not vals:
            raise ValueError("empty range for randrange()")
        return self.choice(vals)

    def __getattr__(self, k):
        raise HarnessError(f"random.{k} is not stubbed")


class NpRandomStub:
    def __init__(self, ctx):
        self.ctx = ctx
        self._r = RandomStub(ctx)

    def seed(self, *a, **k):
        pass

    def shuffle(self, x):
        self._r.shuffle(x)

    def permutation(self, x):
        x = list(range(x)) if isinstance(x, int) else list(x)
        return self._r.sample(x, len(x))

    def choice(self, a, size=None, replace=True, p=None):
        ctx = self.ctx
        a = list(range(a)) if isinstance(a, int) else list(a)
        if isinstance(size, (tuple, list)):
            raise HarnessError("np.random.choice with a shape tuple is not modelled")
        n = 1 if size is None else int(size)
        if p is None:
            p = [RealFraction(1, len(a))] * len(a)
        p = list(p)
        if len(p) != len(a):
            raise ValueError("'a' and 'p' must have same size")
        mark = getattr(ctx, "real_choices", 0)
        ctx.rlog.append(dict(fn="np.choice", a=list(a), p=list(p), size=size, replace=replace))
        out = []
        rem = list(range(len(a)))
        for _ in range(n):
            if getattr(ctx, "law_mode", False):
                # probability laws: zero-probability entries contribute zero, no need to fork on p_i > 0
                live = list(rem)
            else:
                live = [i for i in rem if ctx.truth(core.gt(p[i], 0))]
            if not live:
                raise ValueError("Fewer non-zero entries in p than size")
            tot = core.add(*[p[i] for i in live])
            j = ctx.choose(len(live))
            i = live[j]
            ctx.prob = core.mul(ctx.prob, core.div(p[i], tot))
            out.append(a[i])
            if not replace:
                rem.remove(i)
        ctx.rlog[-1]["outcome"] = list(out)
        ctx.rlog[-1]["random"] = getattr(ctx, "real_choices", 0) > mark
        if size is None:
            return out[0]
        return NpList(out)

    def uniform(self, low=0.0, high=1.0, size=None):
        if size is None:
            return SymUniform(self.ctx, low, high)
        if isinstance(size, (tuple, list)):
            n = 1
            for d in size:
                n *= int(d)
            return NpList([SymUniform(self.ctx, low, high) for _ in range(n)]).reshape(tuple(int(d) for d in size))
        return NpList([SymUniform(self.ctx, low, high) for _ in range(int(size))])

    def random(self, size=None):
        return self.uniform(0, 1, size)

    def rand(self, *shape):
        return self.uniform(0, 1, shape if shape else None)

    def randint(self, low, high=None, size=None):
        if high is None:
            low, high = 0, low
        vals = list(range(int(low), int(high)))
        if not vals:
            raise ValueError("low >= high")
        if size is None:
            return self._r.choice(vals)
        if isinstance(size, (tuple, list)):
            raise HarnessError("np.random.randint with a shape tuple is not modelled")
        return NpList([self._r.choice(vals) for _ in range(int(size))])

    def __getattr__(self, k):
        raise HarnessError(f"np.random.{k} is not stubbed")


class NpList(list):
    """what np.random.* returns under the stubs: a list of (proxy) numbers with the ndarray conveniences code
    commonly uses on such results (reshape/shape/tolist/flatten/astype, element-wise arithmetic, sums).  Anything
    else that only an ndarray has ends the path as a harness limitation (inconclusive), never as a library error."""

    def tolist(self):
        return [x.tolist() if isinstance(x, NpList) else x for x in self]

    @property
    def shape(self):
        if self and isinstance(self[0], NpList):
            return (len(self),) + self[0].shape
        return (len(self),)

    @property
    def ndim(self):
        return len(self.shape)

    @property
    def size(self):
        n = 1
        for d in self.shape:
            n *= d
        return n

    def flatten(self):
        out = NpList()
        for x in self:
            if isinstance(x, NpList):
                out.extend(x.flatten())
            else:
                out.append(x)
        return out

    ravel = flatten

    def reshape(self, *shape):
        if len(shape) == 1 and isinstance(shape[0], (tuple, list)):
            shape = tuple(shape[0])
        flat = self.flatten()
        shape = [int(d) for d in shape]
        if shape.count(-1) > 1:
            raise ValueError("can only specify one unknown dimension")
        if -1 in shape:
            known = 1
            for d in shape:
                if d != -1:
                    known *= d
            if known == 0 or len(flat) % known:
                raise ValueError(f"cannot reshape array of size {len(flat)} into shape {tuple(shape)}")
            shape[shape.index(-1)] = len(flat) // known
        total = 1
        for d in shape:
            total *= d
        if total != len(flat):
            raise ValueError(f"cannot reshape array of size {len(flat)} into shape {tuple(shape)}")

        def build(items, dims):
            if len(dims) == 1:
                return NpList(items)
            step = len(items) // dims[0] if dims[0] else 0
            return NpList(build(items[i * step:(i + 1) * step], dims[1:]) for i in range(dims[0]))
        return build(list(flat), shape)

    def astype(self, *a, **k):
        return NpList(self)

    def copy(self):
        return NpList(self)

    def sum(self, *a, **k):
        if a or k:
            raise core.HarnessError("NpList.sum with axis/arguments is not modelled")
        return core.add(*self.flatten()) if self else 0

    def __getitem__(self, i):
        if isinstance(i, tuple):
            if len(i) == 2 and all(isinstance(j, int) for j in i):
                return list.__getitem__(self, i[0])[i[1]]
            raise core.HarnessError("NpList fancy indexing is not modelled")
        r = list.__getitem__(self, i)
        return NpList(r) if isinstance(i, slice) else r

    def _ew(self, other, op):
        if isinstance(other, (list, tuple)):
            if len(other) != len(self):
                raise ValueError("operands could not be broadcast together")
            return NpList(a._ew(b, op) if isinstance(a, NpList) else op(a, b) for a, b in zip(self, other))
        return NpList(a._ew(other, op) if isinstance(a, NpList) else op(a, other) for a in self)

    def __add__(self, o): return self._ew(o, core.add)
    def __radd__(self, o): return self._ew(o, lambda a, b: core.add(b, a))
    def __sub__(self, o): return self._ew(o, core.sub)
    def __rsub__(self, o): return self._ew(o, lambda a, b: core.sub(b, a))
    def __mul__(self, o): return self._ew(o, core.mul)
    def __rmul__(self, o): return self._ew(o, lambda a, b: core.mul(b, a))
    def __truediv__(self, o): return self._ew(o, core.div)
    def __rtruediv__(self, o): return self._ew(o, lambda a, b: core.div(b, a))

    def __getattr__(self, k):
        if k.startswith("__"):
            raise AttributeError(k)
        raise core.HarnessError(f"ndarray attribute .{k} is not modelled by the np.random stub")


class NpStub:
    """numpy with only `.random` replaced"""

    def __init__(self, ctx, real_np, overrides=None):
        self.random = NpRandomStub(ctx)
        self._np = real_np
        self._ov = overrides or {}

    def __getattr__(self, k):
        if k in self._ov:
            return self._ov[k]
        return getattr(self._np, k)


class MathShim:
    def __init__(self):
        pass

    def isclose(self, a, b, *, rel_tol=1e-09, abs_tol=0.0):
        if core.is_sym(a) or core.is_sym(b):
            # exact real semantics of math.isclose (float rounding of the inputs not modelled)
            d = abs(core.sub(a, b))
            A = abs(core.num(a))
            B = abs(core.num(b))
            rt = RealFraction(rel_tol)
            at = RealFraction(abs_tol)
            c = core.OR(core.le(d, core.mul(rt, A)), core.le(d, core.mul(rt, B)), core.le(d, at))
            return core.cur().branch(c)
        return real_math.isclose(a, b, rel_tol=rel_tol, abs_tol=abs_tol)

    def factorial(self, n):
        if isinstance(n, SF):
            n = n.__index__()
        return real_math.factorial(n)

    def __getattr__(self, k):
        return getattr(real_math, k)


class _FakeSeries:
    def __truediv__(self, o):
        return self

    def sum(self):
        return 1

    def apply(self, f):
        return self


class FakeDataFrame:
    """display-only stand-in for the pandas frame built in PreferenceProfile.create_df (sym runs)"""

    def __init__(self, data=None, **k):
        self.data = {}

    def __getitem__(self, k):
        return _FakeSeries()

    def __setitem__(self, k, v):
        pass

    def __len__(self):
        return 0


class FakePD:
    DataFrame = FakeDataFrame

    def __getattr__(self, k):
        raise HarnessError(f"pandas.{k} is not modelled in symbolic runs (display-only stand-in)")


# ----------------------------------------------------------------------------
# world switching
# ----------------------------------------------------------------------------
class World:
    """Remembers original module globals and swaps them."""

    def __init__(self):
        self.saved = []  # (module, name, original)
        self.patched_names = set()

    def _set(self, mod, name, val):
        self.saved.append((mod, name, mod.__dict__.get(name, _MISSING)))
        setattr(mod, name, val)
        self.patched_names.add(f"{getattr(mod, '__module__', None) + '.' + mod.__name__ if isinstance(mod, type) else mod.__name__}.{name}")

    def restore(self):
        for mod, name, orig in reversed(self.saved):
            if orig is _MISSING:
                try:
                    delattr(mod, name)
                except AttributeError:
                    pass
            else:
                setattr(mod, name, orig)
        self.saved = []

    def enter(self, ctx, extra=None):
        """install stubs for ctx.mode; `extra`: {(module_name, attr): value_or_factory(ctx)}"""
        self.restore()
        import numpy as real_np
        sym = ctx.sym
        ctx.rlog = []
        if not hasattr(ctx, "prob") or ctx.prob is None:
            ctx.prob = core.num(1)
        rs = RandomStub(ctx)
        for mod in votekit_modules():
            d = mod.__dict__
            # (worlds nest: an inner world re-binds the stubs of an outer one to its own ctx and restores them)
            if d.get("random") is real_random or isinstance(d.get("random"), RandomStub):
                self._set(mod, "random", rs)
            if d.get("np") is real_np or isinstance(d.get("np"), NpStub):
                self._set(mod, "np", NpStub(ctx, real_np))
            if sym:
                if d.get("Fraction") is RealFraction or d.get("Fraction") is core.FractionShim:
                    self._set(mod, "Fraction", core.FractionShim)
                if d.get("math") is real_math or isinstance(d.get("math"), MathShim):
                    self._set(mod, "math", MathShim())
                if mod.__name__ == "votekit.pref_profile":
                    self._set(mod, "pd", FakePD())
            if mod.__name__ == "votekit.utils":
                self._set(mod, "print", _quiet)
        for (mn, attr), val in (extra or {}).items():
            if ":" in mn:  # "module:Class" -> patch a class attribute
                mname, cname = mn.split(":")
                __import__(mname)
                mod = getattr(sys.modules[mname], cname)
            else:
                __import__(mn)
                mod = sys.modules[mn]
            if getattr(val, "_sym_only", False) and not sym:
                continue
            self._set(mod, attr, val(ctx) if callable(val) and getattr(val, "_factory", False) else val)


def factory(f):
    f._factory = True
    return f


def sym_only(f):
    """extra patch applied in the symbolic world only (e.g. float/np shims for real-arithmetic abstraction)"""
    f._sym_only = True
    return f


class SymArray(list):
    """the handful of ndarray operations BoostedRandomDictator applies to a score vector,
    carried out in exact (real) arithmetic on proxies"""

    def astype(self, t):
        return self

    def __itruediv__(self, o):
        self[:] = [x / o for x in self]
        return self

    def __truediv__(self, o):
        return SymArray([x / o for x in self])

    def tolist(self):
        return list(self)


def sym_np_overrides():
    def array(x, *a, **k):
        return SymArray(list(x))

    def power(a, k):
        return SymArray([x ** k for x in a])

    def sum_(a):
        r = 0
        for x in a:
            r = r + x
        return r

    return {"array": array, "power": power, "sum": sum_}


def sym_float(x):
    """float() under the real-arithmetic abstraction: proxies pass through unchanged"""
    if isinstance(x, SF):
        return x
    return builtins.float(x)


_MISSING = object()


def _quiet(*a, **k):
    pass


# ----------------------------------------------------------------------------
# function coverage of the encoding ("functions_encoded")
# ----------------------------------------------------------------------------
class FuncRecorder:
    def __init__(self):
        self.seen = {}

    def __enter__(self):
        src_root = os.path.realpath(SRC)

        def prof(frame, event, arg):
            if event != "call":
                return
            co = frame.f_code
            fn = co.co_filename
            if not fn.startswith(src_root):
                return
            key = (fn, co.co_firstlineno, co.co_qualname if hasattr(co, "co_qualname") else co.co_name)
            if key not in self.seen:
                self.seen[key] = co

        self._prof = prof
        sys.setprofile(prof)
        return self

    def __exit__(self, *a):
        sys.setprofile(None)

    def result(self):
        out = {}
        root = os.path.realpath(SRC) + os.sep
        for (fn, line, qn), co in self.seen.items():
            if qn.startswith("<") and qn not in ("<lambda>",):
                continue
            try:
                lines, _ = inspect.getsourcelines(co)
                h = hashlib.sha256("".join(lines).encode()).hexdigest()[:16]
            except Exception:
                h = "?"
            out[f"{fn[len(root):]}:{qn}"] = h
        return out
