"""Replay one counterexample against the unpatched implementation in this (fresh) interpreter."""
from __future__ import annotations

import json
import os
import sys

ROOT = os.path.dirname(os.path.dirname(os.path.abspath(__file__)))
DEPS = os.path.join(ROOT, ".deps")


def main(argv):
    if DEPS not in sys.path:
        sys.path.append(DEPS)
    if ROOT not in sys.path:
        sys.path.insert(0, ROOT)
    from sx import engine
    path = argv[0]
    body = json.load(open(path))
    model = body["model"]
    bad = [k for k, v in model.items() if str(v).startswith(("alg:", "?"))]
    if bad:
        print(json.dumps({"reproduced": False, "why": "model has non-rational values: %s" % bad}))
        return 2
    r = engine.run_conc(body["harness"], body["params"], model, body["script"], alarm=60.0)
    if r["status"] == "violation" and str(r["label"]).startswith("replay-script"):
        # the concrete run left the recorded path (e.g. the symbolic path was cut by its time budget): nothing was reproduced
        print(json.dumps({"reproduced": False, "why": f"{r['label']}: {r.get('detail', '')}"}))
        return 0
    if r["status"] == "violation":
        same = r["label"] == body["label"]
        print(json.dumps({"reproduced": True, "label": r["label"], "same_label": same, "detail": r.get("detail", "")}))
        if "--quiet" not in argv:
            print(f"VIOLATION property={body['property']} replay={path}")
        return 1
    print(json.dumps({"reproduced": False, "why": json.dumps(r, default=str)[:600]}))
    return 0


if __name__ == "__main__":
    sys.exit(main(sys.argv[1:]))
