"""SX core: proxy-value symbolic execution of real Python code, decided by z3.

* `Explorer` holds one incremental z3 solver with the path condition and a decision list that is
  replayed deterministically to enumerate every path (depth-first).
* `SF` is a `fractions.Fraction` *subclass* wrapping a z3 Real term, so pydantic/isinstance checks in
  VoteKit accept it and every arithmetic/comparison operator is routed to z3 (comparisons fork).
* `Ctx` is what a harness sees; it exists in two modes: 'sym' (proxies, forks, validity queries) and
  'conc' (plain Fractions from a model, scripted nondeterminism) so that every counterexample and
  every explored path can be re-run through the unpatched implementation.
"""
from __future__ import annotations

import itertools
import time
import fractions
from fractions import Fraction as RealFraction

import sys

import z3

try:
    sys.set_int_max_str_digits(0)  # nlsat models can carry rationals with thousands of digits
except AttributeError:
    pass

Z1 = z3.RealVal(1)
Z0 = z3.RealVal(0)


def guarded_check(solver, *args, seconds=30.0):
    """solver.check with a watchdog: z3's own timeout is not always honoured inside nlsat, so a timer
    thread interrupts the context; an interrupted check answers unknown"""
    import threading
    t = threading.Timer(seconds, lambda: z3.main_ctx().interrupt())
    t.daemon = True
    t.start()
    try:
        try:
            return solver.check(*args)
        except z3.Z3Exception:
            return z3.unknown
    finally:
        t.cancel()


class Inconclusive(BaseException):
    """z3 answered unknown / budget exhausted: the run may not report success."""


class PathBudget(BaseException):
    """Too many branch decisions on one path: non-termination candidate."""


class HarnessError(BaseException):
    """The harness/proxy layer met something it cannot model faithfully."""


class TapeMismatch(Exception):
    """the second computation asked the random stream for a different kind of draw than the first"""


class ConcViolation(BaseException):
    def __init__(self, label, detail=""):
        super().__init__(f"{label}: {detail}")
        self.label = label
        self.detail = detail


CUR: "Explorer|None" = None  # the explorer of the path being executed (sym mode only)


def cur() -> "Explorer":
    if CUR is None:
        raise HarnessError("symbolic value used outside an exploration")
    return CUR


class Explorer:
    def __init__(self, prefix=(), logic="QF_NRA", timeout_ms=8000, max_branches=4000, shard=None):
        self.solver = z3.SolverFor(logic) if logic else z3.Solver()
        self.solver.set("timeout", timeout_ms)
        self.timeout_ms = timeout_ms
        self.decisions = [list(d) for d in prefix]  # [kind, value, n, exhausted]
        self.pos = 0
        self.queries = 0
        self.solver_time = 0.0
        self.unknown = 0
        self.model = None
        self.log = []  # branch conditions met on this path (z3 terms)
        self.script = []  # outcomes of choose() in order
        self.max_branches = max_branches
        self.nbranch = 0
        self.retries = 0
        self._asserted = set()
        # sharding: the first len(shard) two-sided binary decisions are pinned to the given values,
        # so 2^d workers partition one decision tree between them
        self.shard = list(shard or [])
        self.free_seen = 0
        self.ld_count = 0
        self.ld_terms = []  # (exact term, rounded variable) for limit_denominator applied to derived values
        self.retry_timeout_ms = 60000
        self._last_model_solver = None

    # -- solver plumbing -------------------------------------------------
    def check(self, *extra):
        t = time.time()
        self.queries += 1
        self._last_model_solver = self.solver
        r = guarded_check(self.solver, *extra, seconds=self.timeout_ms / 1000.0 + 5)
        if r == z3.unknown:
            r = self._retry(extra)
        # an `unknown` that comes back quickly is not a solver giving up on a hard query but a stray interrupt (the
        # watchdog of an earlier query firing late) or a resource hiccup on a loaded machine: ask again
        rounds = 0
        while r == z3.unknown and time.time() - t < 20.0 and rounds < 3:
            rounds += 1
            time.sleep(0.05 * rounds)
            r = self._retry(extra)
        self.solver_time += time.time() - t
        if r == z3.unknown:
            self.unknown += 1
        return r

    def _retry(self, extra):
        """the incremental solver gave up: re-pose the query to fresh solvers (deduplicated
        assertions; nlsat directly), with a longer timeout.  Only sat/unsat answers count."""
        self.retries += 1
        seen = set()
        asserts = []
        for a in list(self.solver.assertions()) + list(extra):
            if a.get_id() not in seen:
                seen.add(a.get_id())
                asserts.append(a)
        for mk in (lambda: z3.SolverFor("QF_NRA"),
                   lambda: z3.Then("simplify", "purify-arith", "propagate-values", "nlsat").solver()):
            s = mk()
            s.set("timeout", self.retry_timeout_ms)
            s.add(asserts)
            r = guarded_check(s, seconds=self.retry_timeout_ms / 1000.0 + 5)
            if r != z3.unknown:
                self._last_model_solver = s
                return r
        return z3.unknown

    def _add(self, c):
        k = c.get_id()
        if k in self._asserted:
            return
        self._asserted.add(k)
        self.solver.add(c)

    def _implied_syntactically(self, cond, side):
        # a forced side is implied by the path condition already: adding it is redundant, but it
        # keeps replay cheap (no solver call), so only skip exact duplicates
        return (cond.get_id() if side else z3.Not(cond).get_id()) in self._asserted

    def get_model(self):
        return self._last_model_solver.model()

    def assume(self, cond):
        if isinstance(cond, bool):
            if not cond:
                raise HarnessError("assume(False)")
            return
        self.solver.add(cond)
        self.model = None

    def _tick(self):
        self.nbranch += 1
        if self.nbranch > self.max_branches:
            raise PathBudget()

    # -- forking ---------------------------------------------------------
    def branch(self, cond) -> bool:
        if isinstance(cond, bool):
            return cond
        sc = z3.simplify(cond)
        if z3.is_true(sc):
            return True
        if z3.is_false(sc):
            return False
        # already decided on this path (syntactically the same condition)?  no solver call, no record
        if cond.get_id() in self._asserted:
            return True
        if z3.Not(cond).get_id() in self._asserted:
            return False
        self._tick()
        self.log.append(cond)
        if self.pos < len(self.decisions):
            d = self.decisions[self.pos]
            self.pos += 1
            assert d[0] == "b", "decision replay diverged (non-deterministic harness?)"
            if d[2] == 2:
                self.free_seen += 1
            # forced sides are implied by the path condition, but asserting them helps nlsat
            self._add(cond if d[1] else z3.Not(cond))
            return d[1]
        side = None
        if self.model is not None:
            v = self.model.eval(cond, model_completion=True)
            if z3.is_true(v):
                side = True
            elif z3.is_false(v):
                side = False
        if side is None:
            r = self.check()
            if r != z3.sat:
                raise Inconclusive(f"path condition check: {r}")
            self.model = self.get_model()
            v = self.model.eval(cond, model_completion=True)
            side = z3.is_true(v)
        ro = self.check(z3.Not(cond) if side else cond)
        if ro == z3.unknown:
            raise Inconclusive("branch feasibility unknown")
        both = ro == z3.sat
        if both:
            if self.free_seen < len(self.shard):
                val = bool(self.shard[self.free_seen])
                self.free_seen += 1
                self.decisions.append(["b", val, 2, True])
                self.pos += 1
                self._add(cond if val else z3.Not(cond))
                if val != side:
                    self.model = None
                return val
            self.free_seen += 1
            self.decisions.append(["b", True, 2, False])
            self.pos += 1
            self._add(cond)
            if not side:
                self.model = None
            return True
        self.decisions.append(["b", side, 1, True])
        self.pos += 1
        self._add(cond if side else z3.Not(cond))
        return side

    def duplicate_in_shard(self):
        """a path that met fewer two-sided decisions than the shard pins belongs to the shard whose
        remaining bits are all 0; in the other shards it is a duplicate"""
        return any(self.shard[self.free_seen:])

    def choose(self, n: int) -> int:
        """Pure nondeterminism (random outcome, structural choice): explore all of 0..n-1."""
        if n <= 0:
            raise HarnessError("choose(0)")
        if n == 1:
            self.script.append(0)
            return 0
        self._tick()
        if self.pos < len(self.decisions):
            d = self.decisions[self.pos]
            self.pos += 1
            assert d[0] == "c" and d[2] == n, "decision replay diverged (choose)"
            self.script.append(d[1])
            return d[1]
        self.decisions.append(["c", 0, n, False])
        self.pos += 1
        self.script.append(0)
        return 0

    def valid(self, cond):
        """None if pc |= cond, else a model of pc & ~cond. Raises Inconclusive on unknown."""
        if isinstance(cond, bool):
            if cond:
                return None
            r = self.check()
            if r != z3.sat:
                raise Inconclusive("path model unavailable")
            return self.get_model()
        cond = z3.simplify(cond)
        if z3.is_true(cond):
            return None
        r = self.check(z3.Not(cond))
        if r == z3.unsat:
            return None
        if r == z3.unknown:
            raise Inconclusive("validity query unknown: " + self.solver.reason_unknown())
        return self.get_model()

    def nice_model(self, snap_vars, extra=()):
        """A model of pc (+extra) in which the listed variables take small-denominator values
        (needed where the real code applies limit_denominator(10**6): assumption A-LD).
        Greedy: fix one variable at a time to a nearby simple fraction if that stays satisfiable."""
        extra = list(extra)
        r = self.check(*extra)
        if r != z3.sat:
            return None
        m = self.get_model()
        fixed = []
        for v in snap_vars:
            val = m.eval(v, model_completion=True)
            if not z3.is_rational_value(val):
                return None
            x = val.as_fraction()
            if x.denominator <= 1000:
                fixed.append(v == val)
                continue
            done = False
            cands = []
            for d in (1, 2, 3, 4, 6, 12, 60, 1000):
                c = x.limit_denominator(d)
                if c not in cands:
                    cands.append(c)
            for c in cands:
                eqc = v == z3.Q(c.numerator, c.denominator)
                if self.check(*(extra + fixed + [eqc])) == z3.sat:
                    m = self.get_model()
                    fixed.append(eqc)
                    done = True
                    break
            if not done:
                return None
        if self.check(*(extra + fixed)) != z3.sat:
            return None
        return self.get_model()

    def satisfiable(self, cond) -> bool:
        if isinstance(cond, bool):
            return cond
        r = self.check(cond)
        if r == z3.unknown:
            raise Inconclusive("sat query unknown")
        return r == z3.sat


def next_prefix(decisions):
    dec = [list(d) for d in decisions]
    while dec and dec[-1][3]:
        dec.pop()
    if not dec:
        return None
    last = dec[-1]
    if last[0] == "b":
        last[1] = not last[1]
        last[3] = True
    else:
        last[1] += 1
        last[3] = last[1] >= last[2] - 1
    return dec


# ----------------------------------------------------------------------------
# proxies
# ----------------------------------------------------------------------------
def lift(x):
    """python number / proxy -> z3 Real term (NotImplemented if not a number)."""
    if isinstance(x, SF):
        return x.e
    if isinstance(x, bool):
        return z3.RealVal(int(x))
    if isinstance(x, int):
        return z3.RealVal(x)
    if isinstance(x, RealFraction):
        return z3.Q(x.numerator, x.denominator)
    if isinstance(x, float):
        if x != x or x in (float("inf"), float("-inf")):
            raise HarnessError("non-finite float met a symbolic value")
        f = RealFraction(x)
        return z3.Q(f.numerator, f.denominator)
    if isinstance(x, z3.ArithRef):
        return z3.ToReal(x) if x.is_int() else x
    return NotImplemented


FLOAT_POLICY = {"mix": "error"}  # 'error' | 'real' : what SF <op> float does


def _chk_float(o):
    if isinstance(o, float) and FLOAT_POLICY["mix"] == "error":
        raise HarnessError("Fraction-proxy combined with a float (would become float in real code)")


class SF(RealFraction):
    """z3-Real-backed stand-in for fractions.Fraction."""

    __slots__ = ("e",)

    def __new__(cls, e=0, den=None):
        self = RealFraction.__new__(cls, 0)
        if isinstance(e, SF):
            e = e.e
        elif not isinstance(e, z3.ExprRef):
            e = lift(e)
            if e is NotImplemented:
                raise TypeError("cannot build a Fraction from that")
        elif e.is_int():
            e = z3.ToReal(e)
        if den is not None:
            d = lift(den)
            if cur().branch(d == 0):
                raise ZeroDivisionError("Fraction(%s, 0)" % e)
            e = e / d
        self.e = z3.simplify(e)
        return self

    # ---- arithmetic -----
    def _b(self, o, f, r=False):
        _chk_float(o)
        oe = lift(o)
        if oe is NotImplemented:
            return NotImplemented
        return SF(f(oe, self.e) if r else f(self.e, oe))

    def __add__(s, o):
        return s._b(o, lambda a, b: a + b)

    def __radd__(s, o):
        return s._b(o, lambda a, b: a + b, True)

    def __sub__(s, o):
        return s._b(o, lambda a, b: a - b)

    def __rsub__(s, o):
        return s._b(o, lambda a, b: a - b, True)

    def __mul__(s, o):
        return s._b(o, lambda a, b: a * b)

    def __rmul__(s, o):
        return s._b(o, lambda a, b: a * b, True)

    def __truediv__(s, o):
        _chk_float(o)
        oe = lift(o)
        if oe is NotImplemented:
            return NotImplemented
        oe = z3.simplify(oe)
        if cur().branch(oe == 0):
            raise ZeroDivisionError("Fraction(%s, 0)" % s.e)
        if z3.is_rational_value(oe) and oe.as_fraction() == 1:
            return s
        return SF(s.e / oe)

    def __rtruediv__(s, o):
        _chk_float(o)
        oe = lift(o)
        if oe is NotImplemented:
            return NotImplemented
        if cur().branch(s.e == 0):
            raise ZeroDivisionError("division by zero")
        return SF(oe / s.e)

    def __pow__(s, k):
        if isinstance(k, SF):
            k = k.__index__()
        if not isinstance(k, int) and hasattr(k, "__index__"):
            k = k.__index__()  # numpy integers
        if isinstance(k, float):
            if k.is_integer():
                k = int(k)
            elif k > 0 and abs(1 / k - round(1 / k)) < 1e-12 and FLOAT_POLICY["mix"] == "real":
                # x ** (1/p): the non-negative p-th root, introduced as a fresh variable y with y >= 0, y^p = x
                p = int(round(1 / k))
                ex = cur()
                ROOTS[0] += 1
                y = z3.Real(f"_root{ROOTS[0]}_{len(ex.log)}")
                yp = Z1
                for _ in range(p):
                    yp = yp * y
                ex.assume(z3.And(y >= 0, yp == s.e))
                r = SRoot(y)
                r.radicand, r.p = s, p
                return r
        if not isinstance(k, int):
            raise HarnessError("symbolic ** non-int")
        if k < 0:
            return SF(1) / (s ** (-k))
        r = Z1
        for _ in range(k):
            r = r * s.e
        return SF(r)

    def __neg__(s):
        return SF(-s.e)

    def __pos__(s):
        return s

    def __abs__(s):
        if ABS_POLICY["fork"]:
            return s if cur().branch(s.e >= 0) else SF(-s.e)
        return SF(z3.If(s.e >= 0, s.e, -s.e))

    # ---- comparisons (fork) -----
    def _c(s, o, f):
        oe = lift(o)
        if oe is NotImplemented:
            return NotImplemented
        return cur().branch(f(s.e, oe))

    def __eq__(s, o):
        return s._c(o, lambda a, b: a == b)

    def __ne__(s, o):
        r = s._c(o, lambda a, b: a == b)
        return r if r is NotImplemented else not r

    def __lt__(s, o):
        return s._c(o, lambda a, b: a < b)

    def __le__(s, o):
        return s._c(o, lambda a, b: a <= b)

    def __gt__(s, o):
        return s._c(o, lambda a, b: a > b)

    def __ge__(s, o):
        return s._c(o, lambda a, b: a >= b)

    def __bool__(s):
        return not cur().branch(s.e == 0)

    def __hash__(s):
        return 0

    # ---- conversions -----
    def __float__(s):
        TAINT["float"] += 1
        return float("nan")

    def __repr__(s):
        return f"SF({s.e})"

    __str__ = __repr__

    def __format__(s, spec):
        return repr(s)

    def limit_denominator(s, max_denominator=10**6):
        """A-LD: *input-level* rationals (variables, numerals, values that already went through
        limit_denominator) have denominators <= 10^6 and are fixed points.  A *derived* value (a quotient
        of tallies, a product of weights) can have any denominator, so rounding it is modelled as a fresh
        value within 10^-6 of the exact one: assertions that need the exact value then fail, and the
        counterexample search looks for inputs on which the real rounding bites (Ctx._ld_witness)."""
        e = s.e
        if _ld_fixed_point(e):
            return s
        ex = cur()
        ex.ld_count += 1
        y = z3.Real(f"_ld{ex.ld_count}_{len(ex.log)}")
        eps = z3.Q(1, max_denominator)
        ex.assume(z3.And(y - e <= eps, e - y <= eps))
        ex.ld_terms.append((e, y))
        return SF(y)

    def __int__(s):
        """truncation toward zero, decided by forking on the integer part (needs a bounded value)."""
        ex = cur()
        if ex.branch(s.e < 0):
            k = 0
            while not ex.branch(s.e > -(k + 1)):
                k += 1
                if k > INT_BOUND[0]:
                    raise Inconclusive("int() of an unbounded symbolic value")
            return -k
        k = 0
        while not ex.branch(s.e < k + 1):
            k += 1
            if k > INT_BOUND[0]:
                raise Inconclusive("int() of an unbounded symbolic value")
        return k

    __trunc__ = __int__

    def __floor__(s):
        k = s.__int__()
        if k <= 0 and cur().branch(s.e < k):
            return k - 1
        return k

    def __index__(s):
        # only legitimate for integer-valued proxies (seat counts etc.)
        k = s.__int__()
        if not cur().branch(s.e == k):
            raise TypeError("'Fraction' object cannot be interpreted as an integer")
        return k

    def __round__(s, nd=None):
        raise HarnessError("round() of a symbolic rational is not modelled")

    def _nope(s, *a, **k):
        raise HarnessError("unmodelled Fraction operation on a symbolic rational")

    def __mod__(s, o):
        # integer-valued proxies only (round indices): the value is concretised by forking
        if not isinstance(o, int):
            raise HarnessError("symbolic % non-int")
        return s.__index__() % o

    def __floordiv__(s, o):
        if not isinstance(o, int):
            raise HarnessError("symbolic // non-int")
        return s.__index__() // o

    __rfloordiv__ = __rmod__ = __divmod__ = __rdivmod__ = _nope
    def __ceil__(s):
        k = s.__floor__()
        return k if cur().branch(s.e == k) else k + 1

    as_integer_ratio = __reduce__ = __copy__ = __deepcopy__ = _nope
    __rpow__ = _nope

    @property
    def numerator(s):
        raise HarnessError("numerator of a symbolic rational read")

    @property
    def denominator(s):
        raise HarnessError("denominator of a symbolic rational read")


def _ld_fixed_point(e):
    """numerals, input variables (possibly Int-backed) and earlier limit_denominator results"""
    if z3.is_rational_value(e) or z3.is_int_value(e):
        return True
    if e.decl().kind() == z3.Z3_OP_TO_REAL:
        e = e.arg(0)
    return e.decl().kind() == z3.Z3_OP_UNINTERPRETED and e.num_args() == 0


TAINT = {"float": 0}
ABS_POLICY = {"fork": False}
ROOTS = [0]
INT_BOUND = [64]


class SRoot(SF):
    """y = x ** (1/p) introduced as a constrained fresh variable; remembers x so that y**p is x again"""
    __slots__ = ("radicand", "p")

    def __pow__(s, k):
        if isinstance(k, int) and k == getattr(s, "p", None):
            return s.radicand
        return SF.__pow__(s, k)


class _FracShimMeta(type):
    def __instancecheck__(cls, x):
        return isinstance(x, RealFraction)

    def __subclasscheck__(cls, c):
        return issubclass(c, RealFraction)


class FractionShim(metaclass=_FracShimMeta):
    """Replaces the module-global name `Fraction` in modules under test (sym mode):
    the constructor returns a proxy so that `Fraction(sym)` does not silently drop the term."""

    def __new__(cls, a=0, b=None):
        if isinstance(a, str):
            a = RealFraction(a)
        if isinstance(a, float):
            a = RealFraction(a)
        if b is None:
            return SF(a)
        return SF(a, b)


# ----------------------------------------------------------------------------
# expression helpers usable in both modes (oracle side; never fork)
# ----------------------------------------------------------------------------
def is_sym(x):
    return isinstance(x, (SF, z3.ExprRef))


def _pair(a, b):
    if is_sym(a) or is_sym(b):
        return lift(a), lift(b), True
    return a, b, False


def eq(a, b):
    x, y, s = _pair(a, b)
    return (x == y) if s else bool(x == y)


def ne(a, b):
    x, y, s = _pair(a, b)
    return (x != y) if s else bool(x != y)


def le(a, b):
    x, y, s = _pair(a, b)
    return (x <= y) if s else bool(x <= y)


def lt(a, b):
    x, y, s = _pair(a, b)
    return (x < y) if s else bool(x < y)


def ge(a, b):
    return le(b, a)


def gt(a, b):
    return lt(b, a)


def AND(*xs):
    xs = [x for x in xs]
    if all(isinstance(x, bool) for x in xs):
        return all(xs)
    if any(x is False for x in xs):
        return False
    ys = [x for x in xs if x is not True]
    return z3.And(*ys) if len(ys) != 1 else ys[0]


def OR(*xs):
    if all(isinstance(x, bool) for x in xs):
        return any(xs)
    if any(x is True for x in xs):
        return True
    ys = [x for x in xs if x is not False]
    return z3.Or(*ys) if len(ys) != 1 else ys[0]


def NOT(x):
    return (not x) if isinstance(x, bool) else z3.Not(x)


def IMPL(a, b):
    return OR(NOT(a), b)


def IFF(a, b):
    if isinstance(a, bool) and isinstance(b, bool):
        return a == b
    return AND(IMPL(a, b), IMPL(b, a))


def ITE(c, a, b):
    """value-level if-then-else (oracle side)"""
    if isinstance(c, bool):
        return a if c else b
    return SF(z3.If(c, lift(a), lift(b)))


def num(x):
    """oracle-side number: SF in sym mode stays SF; python numbers become Fractions"""
    if isinstance(x, SF):
        return x
    if isinstance(x, z3.ExprRef):
        return SF(x)
    return RealFraction(x)


def add(*xs):
    if any(is_sym(x) for x in xs):
        r = Z0
        for x in xs:
            r = r + lift(x)
        return SF(r)
    return sum((RealFraction(x) for x in xs), RealFraction(0))


def mul(a, b):
    if is_sym(a) or is_sym(b):
        return SF(lift(a) * lift(b))
    return RealFraction(a) * RealFraction(b)


def sub(a, b):
    if is_sym(a) or is_sym(b):
        return SF(lift(a) - lift(b))
    return RealFraction(a) - RealFraction(b)


def div(a, b):
    """oracle-side division: never forks; caller is responsible for b != 0 (z3: total, x/0 unspecified)"""
    if is_sym(a) or is_sym(b):
        return SF(lift(a) / lift(b))
    return RealFraction(a) / RealFraction(b)


def count_true(conds):
    """number of true conditions, as value usable in eq/lt (int or z3 term)"""
    if all(isinstance(c, bool) for c in conds):
        return sum(1 for c in conds if c)
    r = Z0
    for c in conds:
        r = r + (z3.If(c, Z1, Z0) if not isinstance(c, bool) else z3.RealVal(int(c)))
    return SF(r)


def show(x):
    if isinstance(x, SF):
        return str(z3.simplify(x.e))
    return str(x)


# ----------------------------------------------------------------------------
# harness context
# ----------------------------------------------------------------------------
class Violation:
    def __init__(self, label, detail, model, script, path_index):
        self.label = label
        self.detail = detail
        self.model = model  # dict name -> "p/q"
        self.script = script
        self.path_index = path_index

    def to_json(self):
        return {"label": self.label, "detail": self.detail, "model": self.model,
                "script": self.script, "path": self.path_index}


class Ctx:
    """What a harness sees. mode 'sym' or 'conc'."""

    def __init__(self, mode, ex=None, model=None, script=None, params=None):
        self.mode = mode
        self.ex = ex
        self.model = model or {}
        self.script_in = list(script or [])
        self.script_pos = 0
        self.params = params or {}
        self.vars = {}  # name -> z3 var (sym)
        self.violations = []
        self.asserted = 0  # number of require() calls reached (vacuity guard)
        self.notes = {}
        self.snap = []  # z3 vars that must get small denominators in models (A-LD)
        self.path_index = 0
        self.canary = None  # name of an intentionally-wrong oracle variant to use
        self.canary_hit = False
        self.trace_n = []

    sym = property(lambda s: s.mode == "sym")

    # ---- inputs ----
    def real(self, name, lo=None, hi=None, lo_strict=False, snap=False):
        if self.sym:
            v = z3.Real(name)
            self.vars[name] = v
            if snap:
                self.snap.append(v)
            if lo is not None:
                self.ex.assume(v > lo if lo_strict else v >= lo)
            if hi is not None:
                self.ex.assume(v <= hi)
            return SF(v)
        return RealFraction(self.model[name])

    def integer(self, name, lo=None, hi=None):
        """integer-valued input (needs an Explorer with logic=None)"""
        if self.sym:
            v = z3.Int(name)
            self.vars[name] = v
            if lo is not None:
                self.ex.assume(v >= lo)
            if hi is not None:
                self.ex.assume(v <= hi)
            return SF(z3.ToReal(v))
        return int(RealFraction(self.model[name]))

    # -- random tape: run a second computation under the *same* random stream as a first one --
    tape = None
    tape_mode = None
    tape_pos = 0

    def tape_record(self):
        self.tape, self.tape_mode, self.tape_pos = [], "record", 0

    def tape_replay(self):
        self.tape_mode, self.tape_pos = "replay", 0

    def tape_off(self):
        self.tape_mode = None

    def choose(self, n):
        if n > 1:
            self.real_choices = getattr(self, "real_choices", 0) + 1
        if self.tape_mode == "replay":
            if self.tape_pos >= len(self.tape) or self.tape[self.tape_pos][0] != n:
                raise TapeMismatch(f"draw {self.tape_pos}: {n} outcomes vs recorded {self.tape[self.tape_pos][0] if self.tape_pos < len(self.tape) else None}")
            v = self.tape[self.tape_pos][1]
            self.tape_pos += 1
            return v
        v = self._choose(n)
        if self.tape_mode == "record":
            self.tape.append((n, v))
        return v

    def _choose(self, n):
        if self.sym:
            return self.ex.choose(n)
        if getattr(self, "lenient", False):
            # concrete enumeration of all random outcomes (law replay): beyond the script take outcome 0
            v = self.script_in[self.script_pos] if self.script_pos < len(self.script_in) else 0
            self.script_pos += 1
            self.trace_n.append((n, v))
            return v if v < n else 0
        if n <= 1:
            if self.script_pos < len(self.script_in):
                self.script_pos += 1
            return 0
        if self.script_pos >= len(self.script_in):
            raise ConcViolation("replay-script-exhausted", "concrete run asked for more nondeterministic outcomes than the symbolic path")
        v = self.script_in[self.script_pos]
        self.script_pos += 1
        if v >= n:
            raise ConcViolation("replay-script-mismatch", f"choice {v} of {n}")
        return v

    def pick(self, options):
        options = list(options)
        return options[self.choose(len(options))]

    def _add(self, c):
        k = c.get_id()
        if k in self._asserted:
            return
        self._asserted.add(k)
        self.solver.add(c)

    def _implied_syntactically(self, cond, side):
        # a forced side is implied by the path condition already: adding it is redundant, but it
        # keeps replay cheap (no solver call), so only skip exact duplicates
        return (cond.get_id() if side else z3.Not(cond).get_id()) in self._asserted

    def get_model(self):
        return self._last_model_solver.model()

    def assume(self, cond):
        if self.sym:
            self.ex.assume(cond)
        elif not cond:
            raise HarnessError("model violates an input assumption")

    def truth(self, cond):
        """decide a condition now (forks in sym mode)"""
        if isinstance(cond, bool):
            return cond
        return self.ex.branch(cond)

    # ---- assertions ----
    def require(self, cond, label, detail=""):
        self.asserted += 1
        if self.sym:
            m = self.ex.valid(cond)
            # a label this task has already reported often enough: keep the plain model (the expensive witness
            # polishing below is only worth it for the counterexamples that are kept and replayed)
            polished = getattr(self, "seen_labels", {}).get(label, 0) < getattr(self, "keep_per_label", 3)
            if m is not None and not polished:
                self.violations.append(
                    Violation(label, detail, model_to_dict(m, self.vars), list(self.ex.script), self.path_index))
                return False
            if m is not None and self.snap:
                m2 = self.ex.nice_model(self.snap, [] if isinstance(cond, bool) else [z3.Not(cond)])
                m = m2 if m2 is not None else m
            if m is not None and self.ex.ld_terms:
                m3 = self._ld_witness(cond)
                if m3 is not None:
                    m = m3
                    detail = (detail + " [limit_denominator() is applied to a derived value]").strip()
            if m is not None:
                self.violations.append(
                    Violation(label, detail, model_to_dict(m, self.vars), list(self.ex.script), self.path_index))
                return False
            return True
        if not isinstance(cond, bool):
            raise HarnessError("symbolic condition in concrete mode")
        if not cond:
            raise ConcViolation(label, detail)
        return True

    LD_CANDIDATES = [RealFraction(1000003), RealFraction(1000003, 1000000), RealFraction(999983, 500000),
                     RealFraction(1000003, 3), RealFraction(2000003, 1000000), RealFraction(1000033, 999999)]

    def _ld_witness(self, cond):
        """The path rounds a derived value.  Look for inputs on which the real limit_denominator changes the
        value: pin one input variable to an awkward rational (denominator <= 10^6, so a legal input) and keep
        the first model that the unpatched code, run concretely, also fails on."""
        from . import engine
        hname = getattr(self, "hname", None)
        if hname is None:
            return None
        extra = [] if isinstance(cond, bool) else [z3.Not(cond)]
        tried = 0
        for name, v in list(self.vars.items()):
            if v.is_int():
                continue
            for c in self.LD_CANDIDATES:
                if tried >= 24:
                    return None
                r = self.ex.check(*(extra + [v == z3.Q(c.numerator, c.denominator)]))
                if r != z3.sat:
                    continue
                tried += 1
                m = self.ex.get_model()
                md = model_to_dict(m, self.vars)
                if any(str(x).startswith(("alg:", "?")) for x in md.values()):
                    continue
                try:
                    res = engine.run_conc(hname, self.params, md, list(self.ex.script), alarm=20.0)
                except BaseException:
                    continue
                if res.get("status") == "violation":
                    return m
        return None

    def path_model(self):
        """model of the path condition (small denominators for snap vars), as dict, or None"""
        if self.snap:
            m = self.ex.nice_model(self.snap)
            if m is None:
                return None
        else:
            if self.ex.check() != z3.sat:
                return None
            m = self.ex.get_model()
        return model_to_dict(m, self.vars)

    def require_ratio_eq(self, a, b, label, detail=""):
        """a == b for rational-function terms, decided after factor-aware normalisation
        (sym mode); plain Fraction equality in conc mode"""
        if not self.sym or not (is_sym(a) or is_sym(b)):
            return self.require(eq(a, b) if (is_sym(a) or is_sym(b)) else (RealFraction(a) == RealFraction(b)), label, detail)
        from .ratnorm import Normaliser
        nz = Normaliser()
        ea, eb = lift(a), lift(b)
        neq = nz.neq(ea, eb)
        self.asserted += 1
        r = self.ex.check(neq, *nz.denominators_nonzero(ea, eb))
        if r == z3.unsat:
            return True
        if r == z3.unknown:
            raise Inconclusive("rational identity unknown")
        m = self.ex.get_model()
        self.violations.append(Violation(label, detail, model_to_dict(m, self.vars), list(self.ex.script), self.path_index))
        return False

    def require_ratio_le(self, a, b, label, detail=""):
        """a <= b for rational-function terms whose denominator factors are positive on the path:
        cross-multiplied to one polynomial inequality (sym mode); plain comparison in conc mode"""
        if not self.sym or not (is_sym(a) or is_sym(b)):
            return self.require(le(a, b), label, detail)
        from .ratnorm import Normaliser
        nz = Normaliser()
        ea, eb = lift(a), lift(b)
        na, da = nz.nd(ea)
        nb, db = nz.nd(eb)
        L = nz.lcm(da, db)
        poly = nb * nz.dprod(nz.sub(L, db)) - na * nz.dprod(nz.sub(L, da))  # >= 0  <=>  a <= b  when L > 0
        facs = [nz.to_z3(nz.F[k]) for k in L]
        if all(self.ex.valid(f > 0) is None for f in facs):
            return self.require(nz.to_z3(poly) >= 0, label, detail)
        return self.require(le(a, b), label, detail)

    def fail(self, label, detail=""):
        return self.require(False, label, detail)

    def possible(self, cond):
        """sym: is cond satisfiable together with the path condition?  conc: bool(cond)"""
        if self.sym:
            return self.ex.satisfiable(cond)
        return bool(cond)


def model_to_dict(m, vars_):
    out = {}
    for name, v in vars_.items():
        val = m.eval(v, model_completion=True)
        if z3.is_int_value(val):
            out[name] = str(val.as_long())
        elif z3.is_rational_value(val):
            out[name] = str(val.as_fraction())
        elif z3.is_algebraic_value(val):
            out[name] = "alg:" + str(val.approx(30).as_fraction())
        else:
            out[name] = "?" + str(val)
    return out
