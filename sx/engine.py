"""Worker side: exhaust the decision tree of one harness instance (a *task*)."""
from __future__ import annotations

import importlib
import io
import contextlib
import json
import signal
import sys
import time
import traceback
from fractions import Fraction as RealFraction

import z3

from . import core, env
from .core import (Ctx, Explorer, Inconclusive, PathBudget, HarnessError, ConcViolation,
                   next_prefix, model_to_dict)

HARNESSES = {}


def harness(name, **meta):
    """decorator registering a harness function h(ctx) -> json-able outcome"""

    def deco(f):
        f.meta = meta
        HARNESSES[name] = f
        return f

    return deco


def resolve(name):
    if name not in HARNESSES:
        importlib.import_module("props." + name.split(".")[0])
    return HARNESSES[name]


class _Alarm(BaseException):
    pass


def _on_alarm(signum, frame):
    raise PathBudget()


def _with_alarm(seconds, fn):
    old = signal.signal(signal.SIGALRM, _on_alarm)
    signal.setitimer(signal.ITIMER_REAL, seconds)
    try:
        return fn()
    finally:
        signal.setitimer(signal.ITIMER_REAL, 0)
        signal.signal(signal.SIGALRM, old)


STOP = None  # multiprocessing.Event set by the runner


def run_conc(hname, params, model, script, alarm=20.0, canary=None):
    """Run a harness concretely (no proxies; only random/np.random scripted).
    Returns dict(status, outcome|label|error)."""
    h = resolve(hname)
    env.import_votekit()
    ctx = Ctx("conc", model=model, script=script, params=params)
    ctx.canary = canary
    ctx.prob = None
    world = env.World()
    world.enter(ctx, extra=h.meta.get("extra"))
    buf = io.StringIO()
    try:
        with contextlib.redirect_stdout(buf):
            out = _with_alarm(alarm, lambda: h(ctx))
        return {"status": "ok", "outcome": out, "asserted": ctx.asserted}
    except ConcViolation as v:
        return {"status": "violation", "label": v.label, "detail": v.detail}
    except PathBudget:
        return {"status": "violation", "label": "nontermination", "detail": f"no result within {alarm}s"}
    except HarnessError as e:
        return {"status": "harness-error", "error": repr(e)}
    except Exception as e:  # harness bug or unexpected escape
        return {"status": "harness-error", "error": "".join(traceback.format_exception(e))[-1500:]}
    finally:
        world.restore()


def run_task(task):
    """Explore every path of one harness instance. `task` = dict(harness, params, [canary],
    [max_paths], [budget_s], [xval_stride], [stop_on_violation], [record_functions])."""
    t0 = time.time()
    hname = task["harness"]
    params = task.get("params", {})
    h = resolve(hname)
    env.import_votekit()
    logic = h.meta.get("logic", "QF_NRA")
    max_paths = task.get("max_paths", 200000)
    budget_s = task.get("budget_s", 3600)
    stride = task.get("xval_stride", 1)
    canary = task.get("canary")
    path_alarm = task.get("path_alarm", h.meta.get("path_alarm", 30.0))
    core.INT_BOUND[0] = h.meta.get("int_bound", 64)
    core.FLOAT_POLICY["mix"] = h.meta.get("float_mix", "error")
    core.ABS_POLICY["fork"] = h.meta.get("abs_fork", False)

    res = {
        "task": task, "paths": 0, "decisions": 0, "queries": 0, "solver_s": 0.0, "unknown": 0,
        "violations": [], "violation_count": 0, "inconclusive": [], "harness_errors": [],
        "xval": 0, "xval_mismatch": [], "asserted": 0, "exhausted": False, "samples": [],
        "functions": {}, "patched": [], "labels_reached": {}, "outcome_kinds": {},
    }
    world = env.World()
    prefix = []
    seen_labels = {}
    while True:
        if STOP is not None and STOP.is_set() and not canary:
            res["stopped"] = True  # the runner has enough unlisted counterexamples; see runner.main
            break
        ex = Explorer(prefix, logic=logic, max_branches=h.meta.get("max_branches", 4000), shard=task.get("shard"))
        core.CUR = ex
        ctx = Ctx("sym", ex=ex, params=params)
        ctx.hname = hname
        ctx.seen_labels = seen_labels  # labels already reported by this task (further ones get a plain model)
        ctx.keep_per_label = task.get("keep_per_label", 3)
        ctx.path_index = res["paths"]
        ctx.canary = canary
        ctx.prob = None
        world.enter(ctx, extra=h.meta.get("extra"))
        if res["paths"] == 0:
            res["patched"] = sorted(world.patched_names)
        outcome = None
        status = "ok"
        buf = io.StringIO()
        rec = env.FuncRecorder() if (res["paths"] == 0 and task.get("record_functions", True)) else None
        try:
            with contextlib.redirect_stdout(buf):
                if rec:
                    with rec:
                        outcome = _with_alarm(path_alarm, lambda: h(ctx))
                else:
                    outcome = _with_alarm(path_alarm, lambda: h(ctx))
        except PathBudget:
            status = "budget"
        except Inconclusive as e:
            status = "inconclusive"
            res["inconclusive"].append(str(e)[:200])
        except HarnessError as e:
            status = "harness-error"
            res["harness_errors"].append(repr(e)[:500])
        except ConcViolation as e:
            status = "harness-error"
            res["harness_errors"].append("ConcViolation in sym mode: " + str(e))
        except AssertionError as e:
            status = "harness-error"
            res["harness_errors"].append("".join(traceback.format_exception(e))[-1200:])
        except Exception as e:
            status = "harness-error"
            res["harness_errors"].append("".join(traceback.format_exception(e))[-1200:])
        finally:
            world.restore()
            core.CUR = None
        if rec:
            res["functions"] = rec.result()
        if task.get("shard") and ex.duplicate_in_shard() and status == "ok":
            res["dup_paths"] = res.get("dup_paths", 0) + 1
            prefix = next_prefix(ex.decisions)
            if prefix is None:
                res["exhausted"] = True
                break
            continue
        res["paths"] += 1
        res["decisions"] += sum(1 for d in ex.decisions if not d[3] or d[0] == "c")
        res["asserted"] += ctx.asserted
        res["outcome_kinds"][_kind(outcome, status)] = res["outcome_kinds"].get(_kind(outcome, status), 0) + 1

        pmodel = None
        if status == "budget":
            # non-termination candidate: report with the path's model
            try:
                pmodel = ctx.path_model()
                if pmodel is not None:
                    ctx.violations.append(core.Violation("nontermination", "path exceeded its step/time budget",
                                                         pmodel, list(ex.script), ctx.path_index))
            except Exception:
                res["inconclusive"].append("budget path without model")
        for v in ctx.violations:
            res["violation_count"] += 1
            seen_labels[v.label] = seen_labels.get(v.label, 0) + 1
            if seen_labels[v.label] <= task.get("keep_per_label", 3):
                res["violations"].append(v.to_json())
        for lab, n in getattr(ctx, "reached", {}).items():
            res["labels_reached"][lab] = res["labels_reached"].get(lab, 0) + n

        # cross-validate this path against the unpatched implementation
        if status == "ok" and not ctx.violations and canary is None and stride and (res["paths"] - 1) % stride == 0:
            try:
                pmodel = ctx.path_model()
                if pmodel is not None and not any(v.startswith(("alg:", "?")) for v in pmodel.values()):
                    c = run_conc(hname, params, pmodel, list(ex.script), alarm=path_alarm)
                    res["xval"] += 1
                    if c["status"] != "ok" or _canon(c["outcome"]) != _canon(outcome):
                        res["xval_mismatch"].append({"model": pmodel, "script": list(ex.script),
                                                     "sym": _canon(outcome), "conc": c})
                else:
                    res["xval_skipped"] = res.get("xval_skipped", 0) + 1
            except Inconclusive as e:
                res["inconclusive"].append(str(e))
        if len(res["samples"]) < 3 and status == "ok":
            if pmodel is None:
                try:
                    pmodel = ctx.path_model()
                except BaseException:
                    pass
            res["samples"].append({"model": pmodel, "script": list(ex.script), "outcome": _canon(outcome)})
        if task.get("collect_leaves") and status == "ok":
            import z3 as _z3
            asserts = list(ex.solver.assertions())
            pc = _z3.And(*asserts) if asserts else _z3.BoolVal(True)
            res.setdefault("leaves", []).append({"pc": pc.sexpr(), "outcome": _canon(outcome)})
            res["leaf_vars"] = sorted(set(res.get("leaf_vars", [])) | set(ctx.vars))
        res["queries"] += ex.queries
        res["solver_s"] += ex.solver_time
        res["unknown"] += ex.unknown

        if task.get("stop_on_violation") and res["violation_count"]:
            break
        prefix = next_prefix(ex.decisions)
        if prefix is None:
            res["exhausted"] = True
            break
        if res["paths"] >= max_paths or time.time() - t0 > budget_s:
            break
    res["wall_s"] = time.time() - t0
    return res


def explore_raw(hname, params, pre=None, max_paths=200000, canary=None, path_alarm=30.0, deadline=None):
    """In-process enumeration of every path of a harness; yields (ctx, ex, outcome, status) per path.
    `pre(ctx)` runs before the harness on each path (e.g. to assert a parameter cell)."""
    h = resolve(hname)
    env.import_votekit()
    logic = h.meta.get("logic", "QF_NRA")
    core.INT_BOUND[0] = h.meta.get("int_bound", 64)
    core.FLOAT_POLICY["mix"] = h.meta.get("float_mix", "error")
    core.ABS_POLICY["fork"] = h.meta.get("abs_fork", False)
    world = env.World()
    prefix = []
    n = 0
    while True:
        ex = Explorer(prefix, logic=logic, max_branches=h.meta.get("max_branches", 4000))
        core.CUR = ex
        ctx = Ctx("sym", ex=ex, params=params)
        ctx.path_index = n
        ctx.canary = canary
        ctx.prob = None
        world.enter(ctx, extra=h.meta.get("extra"))
        outcome, status = None, "ok"
        try:
            with contextlib.redirect_stdout(io.StringIO()):
                if pre:
                    pre(ctx)
                outcome = _with_alarm(path_alarm, lambda: h(ctx))
        except PathBudget:
            status = "budget"
        except Inconclusive as e:
            status = "inconclusive:" + str(e)[:100]
        except HarnessError as e:
            status = "harness-error:" + repr(e)[:300]
        except Exception as e:
            status = "harness-error:" + "".join(traceback.format_exception(e))[-800:]
        finally:
            world.restore()
            core.CUR = None
        n += 1
        yield ctx, ex, outcome, status
        prefix = next_prefix(ex.decisions)
        if prefix is None:
            return
        if n >= max_paths or (deadline is not None and time.time() > deadline):
            # the tree was not exhausted: the caller must not report success
            ctx2 = Ctx("sym", ex=ex, params=params)
            yield ctx2, ex, None, "inconclusive:path/time budget of a law exploration exhausted"
            return


def _kind(outcome, status):
    if status != "ok":
        return status
    if isinstance(outcome, dict) and "kind" in outcome:
        return str(outcome["kind"])
    return "ok"


def _canon(o):
    return json.loads(json.dumps(o, sort_keys=True, default=str))
