#!/usr/bin/env python3
"""Regenerates MANIFEST.json from the table below (kept as code so it stays valid)."""
import json, os
ROOT = os.path.dirname(os.path.abspath(__file__))
TECH = ("symbolic execution of the real /repo/src/votekit code with z3-backed proxy values (engine SX in /verif/sx): "
        "every branch is a solver query, every path of the bounded harness is explored, assertions are validity queries; "
        "counterexamples are replayed on the unpatched code")
CHECKS = {
 "C01": ("All 18 rule classes on committed shape families (n=3): symbolic rational weights / scores, concrete m and options; "
         "per path z3 decides termination guard, winner count, per-round partition, status monotonicity and the boundary-tie ValueError policy (both directions for single-round rules). "
         "Bounded: family sizes, Nmax, W and option slice are printed in the evidence.", "§4 C01"),
}
CHECKS.update({
 "C02": ("Real STV/IRV/SequentialRCV constructors run on proxies; every recorded round (profile in/out, state) is compared by z3 with a spec step written from the statement: quota formula, who is elected or eliminated (incl. tie rules), transfer weights per ranking, reported tallies and order. Canaries (wrong quota, > for >=, wrong transfer factor, eliminate highest) must be refuted on every run.", "§4 C02"),
 "C03": ("Unit level: fractional_transfer with symbolic tally >= threshold >= 1 and weights, random_transfer with integer weights and all sample outcomes; per continuing ranking the output weight equals the definition (z3 validity), population and size of the random draw are the transferable unit ballots and tally-threshold. Across rounds: conservation identity on every round of real STV runs.", "§4 C03"),
 "C07": ("Droop proportionality for solid coalitions asked of z3 as an axiom on every path of real STV/IRV runs (fractional and random transfer, simultaneous and one-by-one, all random outcomes).", "§4 C07"),
})
CHECKS.update({
 "C04": ("score_profile_from_rankings/first_place_votes/borda_scores/mentions/score_dict_to_ranking and Plurality/SNTV/Borda constructors run on proxies: symbolic weights, symbolic rational score vectors (shorter/equal/longer than n) and the library's integer vectors whose tie averages run through the real arithmetic; z3 compares every score with the definition term and the winners with the top-m definition.", "§4 C04"),
 "C11": ("condense_ballots, ==, +, to_*_dict, derived fields and Ballot conversion executed with symbolic weights/scores over colliding contents in every order; z3 decides per-content sums and whether == agrees with content-map equality in both directions. Immutability, duplicate candidates, float conversion samples and eq/hash consistency have no symbolic input and are evaluated directly (labelled so).", "§4 C11"),
 "C12": ("remove_cand (profile/tuple/single ballot x condense x leave_zero x every removal subset incl. an absent name), add_missing_cands, expand_tied_ballot, resolve_profile_ties and cleaning.* executed with symbolic weights; per resulting content z3 compares the summed weight with the spec image; expansion checked against all linear extensions and first-place/Borda/pairwise totals.", "§4 C12"),
})
CHECKS.update({
 "C05": ("Constructors of Rating/Approval/Limited/Cumulative/BlocPlurality/GeneralRating with every score, weight, L and k symbolic: on accepted paths z3 proves every ballot satisfies the limits, on TypeError paths that some ballot violates them (both directions, so the == L / == k boundaries and 'only the second ballot offends' are decided); totals and winners against definitions.", "§4 C05"),
 "C06": ("PairwiseComparisonGraph/DominatingSets/CondoBorda on proxies: each margin vs its definition term, edge directions and tie edges, tiers equal to the unique finest dominating partition derived from the decided margin signs (minimality included), Condorcet winner queries, CondoBorda's choice in the straddling tier by definition Borda scores.", "§4 C06"),
 "C09": ("Finished elections of every rule on proxies; per round: replayed profile's candidates and re-scoring by definition vs recorded state, cumulative queries vs per-round records, negative/out-of-range indices; purity as an inductive step (structural snapshot of the object before/after each query); symbolic integer round index on concrete finished elections.", "§4 C09"),
 "C10": ("All non-random rules with random stubs forking over every outcome; every recorded tiebreak is checked by z3 to be genuine (equal deciding tallies), decisive, a strict order obeyed by the round, and score-ordered for borda/first_place with random fallback only among still-tied candidates; draws not covered by a record are reported.", "§4 C10"),
})
CHECKS.update({
 "C13": ("IRV/SNTV/SequentialRCV vs their documented reference (STV m=1, Plurality, STV with a harness-written full-weight transfer) compared round by round under one path condition and the same recorded random stream; TopTwo and Alaska vs the composition written from the statement (finalists/kept candidates by definition tallies, reduced profile by spec image, independently constructed second-stage STV, round renumbering).", "§4 C13"),
 "C20": ("One harness per documented precondition with the violating quantity symbolic (integer seat counts incl. Alaska's stages, rational score-vector entries, rating limit/budget, ballot weights; defective ballot at every index) and both directions asserted: documented exception iff precondition violated. Quota names / duplicate candidates: direct evaluation (labelled). Generator parameter checks are covered with C14's harnesses when present.", "§4 C20"),
})
CHECKS.update({
 "C08": ("Metamorphic relations as oracle: each deterministic rule and scoring utility is run on a profile and, under the same path condition, on its renamed / reordered / split (symbolic split point) / condensed / candidate-permuted variant, rounds compared (scores by z3 validity). Hash-seed independence: the same harness is explored in interpreters with different PYTHONHASHSEED and z3 decides whether some weight vector falls in a leaf of one interpreter but in no equal-outcome leaf of the other.", "§4 C08"),
})
CHECKS.update({
 "C14": ("All 13 generator classes built with symbolic supports/cohesion (exact real arithmetic), random stubs forking over every outcome and an apportionment stub over every admissible split: on every path size, integer weights, declared candidates, completeness, zero-support handling, ballot length/points, per-bloc sums and the Huntington-Hill call contract are checked. N <= 2 (3 thorough), slates <= 2 candidates.", "§4 C14"),
 "C15": ("PreferenceInterval, combine_preference_intervals, name_BradleyTerry._BT_pdf, slate_BradleyTerry._compute_ballot_type_dist and the name models' combined intervals with symbolic supports/cohesion: every table entry compared with its defining rational function by z3 after exact polynomial normalisation (real arithmetic; rounding outside the claim).", "§4 C15"),
 "C16": ("Generators run with symbolic parameters and probabilistic random stubs: per parameter cell (AllSAT over parameter-only branch atoms) the summed path probability of every ballot multiset must equal the documented law as a rational identity (name-PL, short-PL, name-Cumulative, slate-PL, name-BT, slate-BT, AlternatingCrossover given the split, IC); MCMC samplers via one-step kernels and detailed balance; alignment of names and probabilities in every np.random.choice; spatial models: every ballot ranks by increasing distance for every stream.", "§4 C16"),
 "C17": ("RandomDictator / BoostedRandomDictator seat-by-seat laws and uniformity of random tiebreak resolutions: cells over the weight space, summed path probabilities equal the closed forms as rational identities (z3), each cell additionally cross-validated by concretely enumerating the real code's random outcomes.", "§4 C17"),
})
CHECKS.update({
 "C19": ("lp_dist with symbolic weights (float/np.zeros shadowed; x**(1/p) as constrained fresh variable): defining equality, symmetry, zero iff equal distributions, invariance under reordering/condensing/rescaling by a symbolic factor, triangle inequality for p=1 and 'inf' as z3 queries; BallotGraph(profile) node weights symbolic; BallotGraph(n) structure n=2..6 by direct evaluation (labelled, no symbolic input).", "§4 C19"),
})
CHECKS.update({
 "C18": ("PARTIAL: load_scottish only. The function is executed on a symbolic table (csv/os/open in votekit.cvr_loaders stubbed; candidate count, seats, multiplicities and candidate numbers symbolic integers): DataError iff metadata inconsistent, returned seats/ward/names/parties as declared, every ranking the declared mapping of its numbers with the summed multiplicity. load_csv (pandas C tokenizer, groupby) and PreferenceProfile.to_csv (csv C writer) need concrete bytes: not reachable by this technique, no claim made.", "§4 C18, §7"),
})
NOT_APPLICABLE = {}
def main():
    props = [json.loads(l)["id"] for l in open(os.path.join(ROOT, "properties.jsonl"))]
    checks = []
    for pid in props:
        if pid not in CHECKS:
            continue
        text, ref = CHECKS[pid]
        checks.append({
            "property_id": pid,
            "quick_cmd": f"./check {pid} quick",
            "thorough_cmd": f"./check {pid} thorough",
            "evidence_file": f"/verif/evidence/{pid}.json",
            "replay_cmd_template": "./check --replay {path}",
            "engine": "sx",
            "level_claimed": {"category": "model_checking", "text": text, "design_ref": ref},
            "level_note": "bounded: holds for every value of the symbolic inputs within the stated structural bounds (shape families, candidate count, Nmax); trusted: z3 5.1 unsat answers, CPython, pydantic/pandas/networkx run concretely, the proxy layer (cross-validated per path against the unpatched code), stub contracts for random/numpy.random",
            "technique": "solver-based bounded symbolic execution of the real Python code: proxy values over z3 terms, every branch and assertion a z3 query, exhaustive path enumeration within stated structural bounds, counterexamples replayed on the unpatched code",
        })
    na = [{"property_id": p, "reason": NOT_APPLICABLE.get(p, "check not built yet in this round (planned, see DESIGN.md §10)")} for p in props if p not in CHECKS]
    man = {
        "version": 1,
        "setup_cmd": "./setup.sh",
        "hooks": {"guard": "VOTEKIT_VERIF", "enable": "none needed: proxies enter through subclassing and run-time shadowing of module globals by the harness", 
                  "baseline_off_cmd": "cd /repo && /venv/bin/python -m pytest -ra -q -p no:cacheprovider --timeout=900 --continue-on-collection-errors",
                  "source_commits": [], "add_only": True},
        "engines": [{"name": "sx", "path": "/verif/sx", "serves_properties": [c["property_id"] for c in checks],
                     "kind_free_text": "proxy-value symbolic executor over z3 (QF_NRA) running the real VoteKit code; decision-replay path enumeration; concrete replay of every counterexample"}],
        "checks": checks,
        "not_applicable": na,
        "notes": "Exit codes: 0 held within bounds / 1 replay-confirmed violation / 2 inconclusive (never success). Known findings in known_findings.json.",
    }
    json.dump(man, open(os.path.join(ROOT, "MANIFEST.json"), "w"), indent=1)
if __name__ == "__main__":
    main()
