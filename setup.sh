#!/bin/bash
# Offline setup: install z3-solver + crosshair-tool (from the local wheelhouse) into /verif/.deps
# for /venv/bin/python (3.12), which already has VoteKit's dependencies.
set -e
cd "$(dirname "$0")"
DEPS=/verif/.deps
if [ ! -f "$DEPS/.ok" ]; then
  rm -rf "$DEPS"
  PIP_NO_INDEX=1 /venv/bin/python -m pip install --quiet --no-index --find-links /opt/veriftools/wheels \
      --target "$DEPS" z3-solver crosshair-tool >/dev/null 2>"$DEPS.log" || { cat "$DEPS.log"; exit 3; }
  PYTHONPATH="$DEPS" /venv/bin/python -c "import z3; assert z3.get_version_string()" || exit 3
  touch "$DEPS/.ok"
fi
mkdir -p /verif/evidence /verif/replays
exit 0
