#!/usr/bin/env python3
"""Behaviour-preserving refactors (/verif/equivalents/<name>/patch.diff): each is applied to a scratch worktree of
/repo (never to /repo itself) and the property's quick check is run against it through VOTEKIT_SRC; every one must
exit 0 (no false alarm).  usage: run_equivalents.py [name ...]"""
import json, os, shutil, subprocess, sys, tempfile
root = "/verif/equivalents"
names = sys.argv[1:] or sorted(os.listdir(root))
bad = 0
for name in names:
    d = os.path.join(root, name)
    meta = json.load(open(os.path.join(d, "meta.json")))
    sd = tempfile.mkdtemp(prefix="equiv_", dir="/var/tmp")
    subprocess.run(["git", "-C", "/repo", "worktree", "add", "-q", "--detach", sd + "/wt", "HEAD"], check=True)
    try:
        r = subprocess.run(["git", "-C", sd + "/wt", "apply", os.path.join(d, "patch.diff")], capture_output=True, text=True)
        if r.returncode:
            print(name, "PATCH DOES NOT APPLY", r.stderr[:200]); bad += 1; continue
        env = dict(os.environ, VOTEKIT_SRC=sd + "/wt/src")
        r = subprocess.run(["/verif/check", meta["property"], "quick"], capture_output=True, text=True, env=env)
        ok = r.returncode == 0 and "VIOLATION" not in r.stdout
        print(f"{name:28s} {meta['property']} quick: exit={r.returncode} {'ok (silent)' if ok else 'FALSE ALARM'}", flush=True)
        if not ok:
            bad += 1
            print("\n".join(r.stdout.splitlines()[-8:]))
    finally:
        subprocess.run(["git", "-C", "/repo", "worktree", "remove", "--force", sd + "/wt"])
        shutil.rmtree(sd, ignore_errors=True)
sys.exit(1 if bad else 0)
