#!/usr/bin/env python3
"""Apply each seeded change (/verif/seeded/<name>/patch.diff) to /repo, run the check(s) of the property it
breaks (quick tier unless given), undo it straight afterwards, and print a table.
usage: run_seeded.py [name ...] [--tier thorough] [--checks C01,C02]"""
import json, os, subprocess, sys
args = [a for a in sys.argv[1:] if not a.startswith("--")]

tier = "quick"
checks_override = None
for i, a in enumerate(sys.argv):
    if a == "--tier":
        tier = sys.argv[i + 1]; args = [x for x in args if x != tier]
    if a == "--checks":
        checks_override = sys.argv[i + 1].split(","); args = [x for x in args if x != sys.argv[i + 1]]
scratch = "--scratch" in sys.argv  # use a scratch copy of /repo/src (VOTEKIT_SRC) instead of patching /repo: needed while
                                  # background runs use /repo itself
root = "/verif/seeded"
names = args or sorted(os.listdir(root))
for name in names:
    d = os.path.join(root, name)
    if not os.path.isdir(d) or not os.path.exists(os.path.join(d, "patch.diff")):
        continue
    meta = json.load(open(os.path.join(d, "meta.json")))
    checks = checks_override or [meta["property"]] + meta.get("also_run", [])
    env = dict(os.environ)
    if scratch:
        import shutil, tempfile
        sd = tempfile.mkdtemp(prefix="seeded_", dir="/var/tmp")
        subprocess.run(["git", "-C", "/repo", "worktree", "add", "-q", "--detach", sd + "/wt", "HEAD"], check=True)
        r = subprocess.run(["git", "-C", sd + "/wt", "apply", os.path.join(d, "patch.diff")], capture_output=True, text=True)
        env["VOTEKIT_SRC"] = sd + "/wt/src"
    else:
        assert subprocess.run(["git", "-C", "/repo", "status", "--porcelain", "--untracked-files=no"], capture_output=True, text=True).stdout.strip() == "", "/repo not clean"
        r = subprocess.run(["git", "-C", "/repo", "apply", os.path.join(d, "patch.diff")], capture_output=True, text=True)
    if r.returncode != 0:
        print(name, "PATCH DOES NOT APPLY", r.stderr[:200]); continue
    try:
        for c in checks:
            r = subprocess.run(["/verif/check", c, tier], capture_output=True, text=True, env=env)
            lines = r.stdout.splitlines()
            what = [l.strip() for l in lines if l.strip().startswith("what:")]
            print(f"{name:28s} {c} {tier}: exit={r.returncode} violations={sum(1 for l in lines if l.startswith('VIOLATION'))}", flush=True)
            for w in what[:2]:
                print("      ", w[:230], flush=True)
            if r.returncode == 2:
                for l in lines[-6:]:
                    print("      |", l[:230])
    finally:
        if scratch:
            subprocess.run(["git", "-C", "/repo", "worktree", "remove", "--force", sd + "/wt"])
            shutil.rmtree(sd, ignore_errors=True)
        else:
            subprocess.run(["git", "-C", "/repo", "checkout", "--", "."], check=True)
