#!/usr/bin/env python3
"""Development aid: run a check against a scratch copy of /repo/src with one textual mutation.
usage: mutant.py <ID> <tier> <relpath under src/votekit> <old> <new> [SX_ONLY filter]
The copy lives under /var/tmp and is removed afterwards."""
import os, shutil, subprocess, sys, tempfile
pid, tier, rel, old, new = sys.argv[1:6]
d = tempfile.mkdtemp(prefix="vkmut_", dir="/var/tmp")
try:
    shutil.copytree("/repo/src", d + "/src")
    p = os.path.join(d, "src/votekit", rel)
    s = open(p).read()
    assert s.count(old) >= 1, "pattern not found"
    s = s.replace(old, new, 1)
    open(p, "w").write(s)
    env = dict(os.environ, VOTEKIT_SRC=d + "/src")
    if len(sys.argv) > 6:
        env["SX_ONLY"] = sys.argv[6]
    r = subprocess.run(["/verif/check", pid, tier], env=env, capture_output=True, text=True)
    lines = (r.stdout + r.stderr).splitlines()
    v = [l for l in lines if l.startswith("VIOLATION")]
    w = [l for l in lines if l.strip().startswith("what:")]
    print(f"exit={r.returncode} violations={len(v)}")
    for l in w[:4]:
        print("  ", l.strip()[:260])
    for l in lines[-6:]:
        if not l.startswith(("VIOLATION", "  what")):
            print("  |", l[:300])
finally:
    shutil.rmtree(d, ignore_errors=True)
