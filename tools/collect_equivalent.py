#!/usr/bin/env python3
"""collect_equivalent.py <PID> "<what>" : copy a sub-agent's behaviour-preserving refactor out of /tmp/wt_<PID> into
/verif/equivalents/<PID>-refactor/ (patch.diff, NOTES, meta.json)."""
import json, os, shutil, subprocess, sys
pid, what = sys.argv[1:3]
wt = f"/tmp/wt_{pid}"
d = f"/verif/equivalents/{pid}-refactor"
os.makedirs(d, exist_ok=True)
diff = subprocess.run(["git", "-C", wt, "diff", "--", "src"], capture_output=True, check=True).stdout
assert diff.strip(), "empty diff"
open(f"{d}/patch.diff", "wb").write(diff)
if os.path.exists(f"{wt}/NOTES_{pid}.md"):
    shutil.copy(f"{wt}/NOTES_{pid}.md", f"{d}/NOTES_{pid}.md")
json.dump({"property": pid, "expect": "pass", "source": "independent sub-agent (refactor wave)", "what": what}, open(f"{d}/meta.json", "w"), indent=1)
print(d, len(diff.splitlines()), "diff lines")
