#!/usr/bin/env python3
"""run every mutant of tools/mutants.tsv (optionally only those of given ids) and print a table"""
import subprocess, sys
only = set(a.upper() for a in sys.argv[1:])
for line in open('/verif/tools/mutants.tsv'):
    if not line.strip() or line.startswith('#'):
        continue
    pid, rel, old, new = line.rstrip('\n').split('\t')
    if only and pid not in only:
        continue
    old = old.replace('\\n', '\n'); new = new.replace('\\n', '\n')
    r = subprocess.run(['python3', '/verif/tools/mutant.py', pid, 'quick', rel, old, new], capture_output=True, text=True)
    first = r.stdout.splitlines()
    print(pid, rel.split('/')[-1], repr(new[:50]), '=>', first[0] if first else r.stderr[-300:], flush=True)
    for l in first[1:3]:
        print('      ', l[:220], flush=True)
