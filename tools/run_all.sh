#!/bin/bash
# usage: run_all.sh <tier> [ids...]  -- runs the checks one after another, prints exit code and wall time
tier=${1:-quick}; shift
ids=${@:-C01 C02 C03 C04 C05 C06 C07 C08 C09 C10 C11 C12 C13 C14 C15 C16 C17 C18 C19 C20}
for id in $ids; do
  s=$(date +%s)
  out=$(/verif/check $id $tier 2>&1); rc=$?
  e=$(date +%s)
  echo "$id $tier exit=$rc wall=$((e-s))s :: $(echo "$out" | grep "^$id $tier:" | tail -1)"
  if [ $rc -ne 0 ]; then echo "$out" | grep -v "^KNOWN-FINDING" | tail -12; fi
done
