#!/usr/bin/env python3
"""Print the markdown cost table of DESIGN.md section 11.3 from the evidence files of the last runs."""
import glob, json
def k(n):
    return f"{n / 1e6:.1f} M" if n >= 1e6 else (f"{n / 1e3:.0f} k" if n >= 1e4 else (f"{n / 1e3:.1f} k" if n >= 1000 else str(n)))
print("| id | tier | tasks | paths | solver queries | cross-validated | wall |")
print("|---|---|---|---|---|---|---|")
for f in sorted(glob.glob("/verif/evidence/C*.json")):
    d = json.load(open(f)); c = d["coverage"]
    print(f"| {d['property_id']} | {d['tier']} | {c.get('tasks')} | {k(c['states'])} | {k(c.get('solver_queries', 0))} | {k(c.get('traces_validated_against_impl', 0))} | {d['wall_s']:.0f} s |")
