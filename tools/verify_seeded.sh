#!/bin/bash
# usage: verify_seeded.sh <seeded-dir-name> <prop-id> "<test files>"
# Confirms in a scratch worktree (outside /repo and /verif) that: the patch applies, the demo exits 0 without it
# and 1 with it, and the given repository tests pass before and after (run against the worktree's src).
set -u
name=$1; id=$2; tests=$3
d=/verif/seeded/$name
wt=/var/tmp/verify_$name
rm -rf $wt; git -C /repo worktree add -q --detach $wt HEAD || exit 9
cd $wt
run_tests() { PYTHONPATH=$wt/src /venv/bin/python -m pytest -q -p no:cacheprovider --timeout=900 $tests 2>&1 | tail -1; }
cp $d/demo_$id.py .
PYTHONPATH=$wt/src /venv/bin/python demo_$id.py > /tmp/demo_before.out 2>&1; b=$?
tb=$(run_tests)
git apply $d/patch.diff || { echo "PATCH FAILED"; }
PYTHONPATH=$wt/src /venv/bin/python demo_$id.py > /tmp/demo_after.out 2>&1; a=$?
ta=$(run_tests)
git checkout -q -- . 2>/dev/null
echo "$name: demo exit without=$b with=$a | tests before: $tb | after: $ta"
tail -2 /tmp/demo_after.out | cut -c1-200
cd /; git -C /repo worktree remove --force $wt
