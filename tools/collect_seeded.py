#!/usr/bin/env python3
"""collect_seeded.py <PID> <suffix> "<needs_to_manifest>" : copy a sub-agent's change out of its scratch worktree
/tmp/wt_<PID> into /verif/seeded/<PID>-<suffix>/ (patch.diff, demo, NOTES, meta.json)."""
import json, os, shutil, subprocess, sys
pid, suffix, needs = sys.argv[1:4]
wt = f"/tmp/wt_{pid}"
d = f"/verif/seeded/{pid}-{suffix}"
os.makedirs(d, exist_ok=True)
diff = subprocess.run(["git", "-C", wt, "diff", "--", "src"], capture_output=True, check=True).stdout
assert diff.strip(), "empty diff"
open(f"{d}/patch.diff", "wb").write(diff)
for f in (f"demo_{pid}.py", f"NOTES_{pid}.md"):
    shutil.copy(f"{wt}/{f}", f"{d}/{f}")
json.dump({"property": pid, "source": f"independent sub-agent ({suffix})", "needs_to_manifest": needs,
           "verified": "pending"}, open(f"{d}/meta.json", "w"), indent=1)
print(d, len(diff.splitlines()), "diff lines")
